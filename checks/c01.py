"""C01 - a reported solution satisfies every asserted constraint (all configurations).
Shares its workload with C02 (wrong 'unsolvable'), C04-C06 (timelines) and C03 (causal structure): each failure is tagged with its owner."""
import re

from vlib import build, common, drv, rgen, riddle, solverlib
from vlib.riddle import ev

PID = "C01"

QUICK_CFGS = ["cfg-h_max-off-d", "cfg-h_add-on-r", "cfg-h_max-on-d", "cfg-h_add-off-r"]
ALL_CFGS = ["cfg-%s-%s-%s" % (h, ci, bt) for h in ("h_max", "h_add") for ci in ("off", "on") for bt in ("d", "r")]


def probes(tier):
    cfgs = QUICK_CFGS if tier == "quick" else ALL_CFGS
    return {v: build.driver(v, "probe", libs=("solver", "core", "riddle", "smt", "json")) for v in cfgs}


def fmtv(v):
    if isinstance(v, tuple) and len(v) == 2 and not isinstance(v[0], str):
        return str(v[0]) + ("" if v[1] == 0 else " %+deps" % v[1])
    return str(v)


def judge_constraints(cons, sol, scope=None, label=""):
    """returns list of (kind, constraint text, detail) for constraints that are not True on the exposed values"""
    bad = []
    env = sol.env(scope)
    n = 0
    for e in cons:
        try:
            if any(isinstance(env[nm], tuple) and env[nm][0] is None for nm in names_in(e) if nm in env):
                raise TypeError("non-finite")
            v = ev(e, env)
        except (riddle.Unknown, KeyError) as ex:
            bad.append(("unjudged", riddle.show(e), "value not exposed: %s" % ex))
            continue
        except TypeError:
            # an exposed value is infinite (a time point without a lower bound is reported at -inf): arithmetic on it is undefined, not judged
            bad.append(("unjudged", riddle.show(e), "non-finite value exposed"))
            continue
        n += 1
        if v is True:
            continue
        vals = {}
        for name in names_in(e):
            try:
                vals[name] = fmtv(env[name])
            except KeyError:
                pass
        bad.append(("false" if v is False else "undetermined", riddle.show(e), "%s evaluates to %s with %s" % (label + riddle.show(e), v, vals)))
    return bad, n


def names_in(e):
    s = set()
    if e[0] == "id":
        s.add(".".join(e[1]))
    for x in e[1:]:
        if isinstance(x, tuple):
            s |= names_in(x)
        elif isinstance(x, list):
            for y in x:
                if isinstance(y, tuple):
                    s |= names_in(y)
    return s


def lra_ids(sol, names):
    """numeric variable ids (as the LRA theory numbers them) of the named top-level variables, from the 'lin' strings of the solution JSON"""
    ids = set()
    for n in names:
        e = sol.top.get(n.split(".")[0])
        if e and isinstance(e.get("value"), dict):
            m = re.fullmatch(r"x(\d+)", e["value"].get("lin", ""))
            if m:
                ids.add(int(m.group(1)))
    return ids


def undecided_atom_inside(e, sol, out):
    """KNOWN CLASS K1: the reported solution leaves a theory atom built from a sub-expression of `e` undecided"""
    ids = lra_ids(sol, names_in(e))
    for a in out.undecided:
        vs = set(a["vars"])
        if vs and vs <= ids:
            return True
    return False


def z3_sat(case):
    """ground truth for the constraint-only fragment; returns 'sat' / 'unsat' / 'unknown'"""
    import z3
    s = z3.Solver()
    s.set("timeout", 5000)
    zenv = {}
    for v in case["reals"]:
        zenv[v] = z3.Real(v)
    for b in case["bools"]:
        zenv[b] = z3.Bool(b)
    for e in case["cons"]:
        s.add(riddle.to_z3(e, zenv, z3))
    r = s.check()
    return "sat" if r == z3.sat else ("unsat" if r == z3.unsat else "unknown")


def ops_of(e):
    s = set()
    if e[0] not in ("num", "bool", "id"):
        s.add(e[0])
    for x in e[1:]:
        if isinstance(x, tuple):
            s |= ops_of(x)
        elif isinstance(x, list):
            for y in x:
                if isinstance(y, tuple):
                    s |= ops_of(y)
    return s


def cli_leg(part, case, variant, probe_exe, out, owner):
    """the user-visible path: the oRatio executable of the same build; exit code, solution file and the values in it"""
    import os
    bdir = os.path.dirname(probe_exe)
    rc, so, js, crash = solverlib.run_cli(bdir, [case["text"]])
    if rc is None:
        part.inconc("timeout (search budget, CLI)")
        return
    if crash is not None:
        part.inconc("abort (owned by C18): " + crash.site())
        return
    part.count("cli: runs")
    part.count("cli: exit code %s" % rc)
    wit = {"program": case["text"], "variant": variant, "stdout": so[-600:], "exit_code": rc}
    probe_solved = out.status == "solved"
    if rc == 0:
        if js is None or js == "unparsable":
            if owner == "C01":
                part.violation("cli/no-solution-file", "oRatio exits with 0 ('hurray') but the solution file is %s" % ("missing" if js is None else "not valid JSON"), wit)
            return
        sol = solverlib.Solution(js)
        bad, njudged = judge_constraints(case["cons"], sol)
        part.count("cli: constraints evaluated on solution files", njudged)
        for kind, txt, detail in bad:
            if kind == "unjudged":
                if owner == "C01" and probe_solved and "non-finite" not in detail:       # (an infinite time point is not judged anywhere)
                    try:
                        pb, _ = judge_constraints([c for c in case["cons"] if riddle.show(c) == txt], solverlib.Solution(out.post))
                    except Exception:
                        pb = [("unjudged",)]
                    if not pb or pb[0][0] != "unjudged":
                        part.violation("cli/value-not-exposed", "the solution file written by oRatio does not expose a value the solver's state exposes: " + detail, dict(wit, constraint=txt))
                continue
            if owner != "C01":
                continue
            e = [c for c in case["cons"] if riddle.show(c) == txt][0]
            if probe_solved and undecided_atom_inside(e, solverlib.Solution(out.post), out):
                key = "solution-leaves-theory-atom-undecided"
            else:
                key = "cli/constraint-%s/%s" % (kind, "+".join(sorted(ops_of(e)))[:60])
            part.violation(key, "oRatio exits with 0 and writes a solution in which " + detail, dict(wit, constraint=txt, detail=detail))
        if not probe_solved and owner == "C02":
            part.violation("cli/verdict-differs", "the library declares the problem unsolvable when driven through solver::read/solve directly but the oRatio executable of the same build reports a solution", wit)
    elif rc == 1:
        if js is not None and owner == "C01":
            part.violation("cli/solution-file-without-solution", "oRatio exits with 1 but wrote a solution file", wit)
        if probe_solved and "unsolvable" in so and owner == "C02":
            part.violation("cli/declared-unsolvable", "the oRatio executable declares unsolvable a problem the same library solves when driven directly", wit)


def verdict_of(out):
    st = out.status
    msg = out.read_error or out.solve_error or ""
    if st == "solved":
        return "solvable"
    if st == "unsolvable" or "unsolvable" in msg or "inconsistent" in msg:
        return "unsolvable"
    return None


def equivalence_leg(part, rnd, case, variant, exe, out, fam):
    """C02, second half: an equivalent formulation (independent statements reordered, identifiers renamed, commutative arguments reordered, tautologies
    added) must get the same verdict in the same configuration"""
    v0 = verdict_of(out)
    if v0 is None:
        return
    text2, what = rgen.equivalent_variant(rnd, case)
    out2 = solverlib.run_probe(exe, [text2])
    if out2.status == "timeout":
        part.inconc("timeout (search budget, equivalent formulation)")
        return
    if out2.status == "crash":
        part.inconc("abort (owned by C18): " + out2.crash.site())
        return
    v1 = verdict_of(out2)
    part.count(fam + ": equivalent formulations compared (%s)" % what)
    part.count(fam + ": equivalent formulations compared")
    if v1 is None:
        part.count(fam + ": equivalent formulation rejected with another error (owned by C16)")
        return
    if v0 != v1:
        # which of the two is wrong? 'unsolvable' is C02's only if the problem has a solution; a wrong 'solvable' (a reported solution that
        # violates a constraint) is C01's and is reported there
        truth = "sat" if case["planted"] is not None else z3_sat(case)
        if truth == "unsat":
            part.count(fam + ": verdict differences in which 'unsolvable' is the right answer (the wrong 'solvable' is owned by C01)")
            return
        if truth == "unknown":
            part.inconc("z3 unknown")
            return
        part.violation(fam + "/equivalent-formulations-get-different-verdicts", "the problem is %s, an equivalent formulation of it (%s) is %s" % (v0, what, v1),
                       {"program": case["text"], "equivalent_program": text2, "transformation": what, "variant": variant, "verdicts": [v0, v1]})


def cons_work(exes, start, n, owner, fam="cons"):
    part = common.Partial()
    rnd = common.rng("CONS", start) if fam == "cons" else common.rng("CONS", fam, start)
    gen = rgen.gen_cons if fam == "cons" else rgen.gen_tp
    names = sorted(exes)
    for i in range(n):
        case = gen(rnd, start + i)
        variant = names[(start + i) % len(names)]
        inc = (start + i) % 5 == 4 and case.get("parts")
        if inc:
            # the same program given as two scripts, with a solve() in between (the way the executor and interactive front ends use the solver)
            out = solverlib.run_probe(exes[variant], case["parts"], incremental=True)
            part.count(fam + ": programs read incrementally")
        else:
            out = solverlib.run_probe(exes[variant], [case["text"]])
        fp = common.fingerprint(case["text"])
        st = out.status
        if st == "timeout":
            part.inconc("timeout (search budget)")
            continue
        if st == "crash":
            part.inconc("abort (owned by C18): " + out.crash.site())
            continue
        part.count(fam + ": programs (%s)" % variant)
        part.count(fam + ": outcome " + st)
        if (start + i) % 3 == 0 and st in ("solved", "unsolvable") and not inc:
            cli_leg(part, case, variant, exes[variant], out, owner)
        if owner == "C02" and (start + i) % 2 == 1 and not inc:
            equivalence_leg(part, rnd, case, variant, exes[variant], out, fam)
        if st == "solved":
            sol = solverlib.Solution(out.post)
            bad, njudged = judge_constraints(case["cons"], sol)
            part.case(fp, njudged > 0, {"program": case["text"], "variant": variant})
            part.count(fam + ": constraints evaluated on solutions", njudged)
            for kind, txt, detail in bad:
                if kind == "unjudged":
                    part.count(fam + ": constraints not judged (value not exposed)")
                    continue
                if owner == "C01":
                    e = [c for c in case["cons"] if riddle.show(c) == txt][0]
                    if undecided_atom_inside(e, sol, out):
                        key = "solution-leaves-theory-atom-undecided"
                        part.count(fam + ": failures attributed to undecided theory atoms")
                    else:
                        key = fam + "/constraint-%s/%s" % (kind, "+".join(sorted(ops_of(e)))[:60])
                    part.violation(key, "solve() returned true but " + detail, {"program": case["text"], "variant": variant, "constraint": txt, "detail": detail})
                else:
                    part.count("failures owned by C01")
        else:
            part.case(fp, True, {"program": case["text"], "variant": variant, "outcome": st})
            msg = out.read_error or out.solve_error or ""
            is_unsolvable = st == "unsolvable" or "unsolvable" in msg or "inconsistent" in msg
            if not is_unsolvable:
                # some other reported error on a valid program: acceptance is C16's
                part.count(fam + ": rejected with another error (owned by C16)")
                if owner == "C16":
                    part.violation(fam + "/valid-program-rejected/" + re.sub(r"\[\d+, \d+\] ", "", msg)[:60], "a valid constraint program is rejected with an error: " + msg, {"program": case["text"], "variant": variant})
                continue
            truth = None
            if case["planted"] is not None:
                truth = "sat"
                src = "planted assignment " + str({k: fmtv(v) for k, v in case["planted"].items()})
            else:
                truth = z3_sat(case)
                src = "z3"
                part.count(fam + ": z3 ground truth " + truth)
            if truth == "sat":
                if owner == "C02":
                    allops = set()
                    for c in case["cons"]:
                        allops |= ops_of(c)
                    part.violation(fam + "/declared-unsolvable/%s" % st, "the problem is declared unsolvable (%s) but it has a solution (%s)" % (msg or st, src),
                                   {"program": case["text"], "variant": variant, "ground_truth": src, "operators": sorted(allops)})
                else:
                    part.count("failures owned by C02")
            elif truth == "unknown":
                part.inconc("z3 unknown")
    return part.dump()


def run(tier):
    res = common.Result(PID, tier, "constraint-network programs (time points of type tp with difference constraints in every accepted shape; 1-5 real/int variables, 0-3 booleans, 2-8 random constraints over + - * / relations & | ^ -> ! ==, 80% built around "
                        "a planted assignment) run through read()+solve() in the configuration matrix (h_max/h_add x CHECK_INCONSISTENCIES on/off x Debug/Release); "
                        "every asserted constraint is evaluated with exact (rational, eps) arithmetic on the values the solution JSON exposes and must be True; every third program also goes through the oRatio executable of the same build (exit code, solution file, values in it); "
                        "further families (objects, rules, timelines) are added by the same oracle; non-trivial = solve() returned true and at least one "
                        "constraint was evaluated")
    res.assumptions = ["values are read from core::to_json (the JSON a user gets); int variables are treated as reals (the network does not enforce integrality)"]
    exes = probes(tier)
    total = 2400 if tier == "quick" else 60000
    per = 20 if tier == "quick" else 50
    common.pmap(cons_work, [(exes, s, per, PID) for s in range(0, total, per)], res)
    common.pmap(cons_work, [(exes, s, per, PID, "tp") for s in range(0, total // 3, per)], res)
    from checks import plan
    plan.run_families(res, exes, tier, PID)
    res.gate("time-point (difference logic) solutions evaluated", res.counters.get("tp: constraints evaluated on solutions", 0) > 200)
    res.gate("solutions evaluated", res.counters.get("cons: constraints evaluated on solutions", 0) > 500)
    res.gate("solution files written by the oRatio executable evaluated", res.counters.get("cli: constraints evaluated on solution files", 0) > 100)
    for v in exes:
        res.gate("configuration %s exercised" % v, res.counters.get("cons: programs (%s)" % v, 0) > 0)
    return res.finish()
