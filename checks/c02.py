"""C02 - a problem is declared unsolvable only if it has no solution."""
from vlib import common
from checks import c01

PID = "C02"


def run(tier):
    res = common.Result(PID, tier, "same workload as C01; whenever oRatio answers 'unsolvable' (solve()==false, unsolvable / inconsistent-problem error while reading) the verdict "
                        "is compared with ground truth: the planted assignment the program was built around (re-validated by the evaluator), z3 on the constraint-only "
                        "fragment, or - for planning families - the planted plan (solvable by construction) resp. z3 on the scheduling semantics of the unplanted sx family; every second constraint-network program is also run in an equivalent formulation (statements reordered, identifiers renamed, commutative arguments reordered, tautologies added) and must get the same verdict; non-trivial = the program terminated within the budget with a verdict")
    res.assumptions = ["'no solution' is only ever concluded by z3 on the constraint fragment; elsewhere only 'has a solution' is known (planted / metamorphic)",
                       "non-terminating searches are inconclusive"]
    exes = c01.probes(tier)
    total = 2400 if tier == "quick" else 60000
    per = 20 if tier == "quick" else 50
    common.pmap(c01.cons_work, [(exes, s + 700000, per, PID) for s in range(0, total, per)], res)
    common.pmap(c01.cons_work, [(exes, s + 700000, per, PID, "tp") for s in range(0, total // 3, per)], res)
    from checks import c17
    oexes = {v: exes[v] for v in sorted(exes)[:2]}
    common.pmap(c17.work, [(oexes, s, per, PID) for s in range(0, total // 2, per)], res)
    from checks import plan
    plan.run_families(res, exes, tier, PID)
    res.gate("equivalent formulations compared", res.counters.get("cons: equivalent formulations compared", 0) + res.counters.get("tp: equivalent formulations compared", 0) > 300)
    res.gate("unsolvable verdicts compared with ground truth", res.counters.get("cons: outcome unsolvable", 0) + res.counters.get("cons: outcome read-error", 0) > 10)
    return res.finish()
