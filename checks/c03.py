"""C03 - every atom in a reported plan is justified and causal support is acyclic."""
from vlib import common
from checks import c01, plan

PID = "C03"


def run(tier):
    res = common.Result(PID, tier, "programs with predicates, rules with sub-goals, a recursive predicate that terminates only by unification with a fact, disjunctions with costs, and state-variable timelines; the causal graph recorded through solver_listener (flaws, resolvers, causes, causal links) with the final truth value of every phi / rho and the atom states of the solution JSON are checked: every in-plan flaw expanded and resolved (exclusively where exclusive), unifications between active atoms of the same predicate with equal arguments, rule sub-goals present and in plan, no cycle in goal->sub-goal / unified->target support; non-trivial = more than one in-plan flaw checked")
    res.assumptions = ["atoms whose tau still has several values in the reported solution are not attributed to an instance (owned by C14/C17)"]
    exes = c01.probes(tier)
    plan.run_families(res, exes, tier, PID)
    key = {"C03": "C03: in-plan flaws checked", "C04": "C04: atom pairs on one state variable compared", "C05": "C05: instants summed", "C06": "C06: temporal atoms checked"}[PID]
    res.gate(key, res.counters.get(key, 0) > 50)
    return res.finish()
