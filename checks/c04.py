"""C04 - atoms on one state variable never overlap."""
from vlib import common
from checks import c01, plan

PID = "C04"


def run(tier):
    res = common.Result(PID, tier, "state-variable programs built around a planted schedule (1-2 classes, 1-4 instances, facts and goals with fixed / windowed / free times, zero-length atoms, touching atoms, atoms whose state variable is itself a variable, tight horizons) in the configuration matrix; active atoms per instance are compared pairwise with half-open intervals in exact arithmetic and the extracted timeline is compared segment by segment; non-trivial = at least one pair of atoms on one instance compared")
    res.assumptions = ["atoms whose tau still has several values in the reported solution are not attributed to an instance (owned by C14/C17)"]
    exes = c01.probes(tier)
    plan.run_families(res, exes, tier, PID)
    key = {"C03": "C03: in-plan flaws checked", "C04": "C04: atom pairs on one state variable compared", "C05": "C05: instants summed", "C06": "C06: temporal atoms checked"}[PID]
    res.gate(key, res.counters.get(key, 0) > 50)
    return res.finish()
