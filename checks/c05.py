"""C05 - reusable-resource usage never exceeds capacity."""
from vlib import common
from checks import c01, plan

PID = "C05"


def run(tier):
    res = common.Result(PID, tier, "reusable-resource programs built around a planted load profile (exact fits, zero amounts, zero-length atoms, several resources, free resource variable); the sum of amounts of the active Use atoms covering every atom start is compared with the capacity in exact arithmetic and every timeline segment's usage with the recomputed sum; non-trivial = at least one instant summed")
    res.assumptions = ["atoms whose tau still has several values in the reported solution are not attributed to an instance (owned by C14/C17)"]
    exes = c01.probes(tier)
    plan.run_families(res, exes, tier, PID)
    key = {"C03": "C03: in-plan flaws checked", "C04": "C04: atom pairs on one state variable compared", "C05": "C05: instants summed", "C06": "C06: temporal atoms checked"}[PID]
    res.gate(key, res.counters.get(key, 0) > 50)
    return res.finish()
