"""C06 - active atoms are temporally well-formed."""
from vlib import common
from checks import c01, plan

PID = "C06"


def run(tier):
    res = common.Result(PID, tier, "facts and goals on plain Interval / Impulse predicates, on sub-goals created by rules, on agents, state variables and reusable resources, with release / deadline constraints and tight horizons; every active atom with start/end (at) is checked against origin <= start <= end <= horizon and duration = end - start >= 0 (origin <= at <= horizon); non-trivial = at least one temporal atom checked")
    res.assumptions = ["atoms whose tau still has several values in the reported solution are not attributed to an instance (owned by C14/C17)"]
    exes = c01.probes(tier)
    plan.run_families(res, exes, tier, PID)
    key = {"C03": "C03: in-plan flaws checked", "C04": "C04: atom pairs on one state variable compared", "C05": "C05: instants summed", "C06": "C06: temporal atoms checked"}[PID]
    res.gate(key, res.counters.get(key, 0) > 50)
    return res.finish()
