"""C07 - the constraint network only infers what is entailed (mixed SAT + LRA + IDL + RDL + OV histories, z3 as reference).

Also provides the mixed workload and the twin-network comparison used by C08.
"""
from fractions import Fraction

from vlib import build, common, drv, net

PID = "C07"
Z = Fraction(0)


def fr(x):
    return "%d/%d" % (x.numerator, x.denominator)


def gen_case(rnd, idx, pop_heavy=False):
    nb = rnd.randint(3, 8)
    ops = ["bvar a%d" % i for i in range(nb)]
    pool = ["a%d" % i for i in range(nb)]
    theories = set()
    # LRA
    if rnd.random() < 0.6:
        theories.add("lra")
        nx = rnd.randint(1, 3)
        ops += ["lvar x%d" % i for i in range(nx)]
        for j in range(rnd.randint(1, 4)):
            vs = rnd.sample(range(nx), rnd.randint(1, nx))
            l = ",".join(["k=%d" % rnd.randint(-5, 5)] + ["x%d=%s" % (v, fr(Fraction(rnd.choice([1, -1, 2, -2, 3]), rnd.choice([1, 1, 2])))) for v in vs])
            r = "k=%d" % rnd.randint(-5, 5)
            if rnd.random() < 0.3:
                r += ",x%d=1/1" % rnd.randrange(nx)
            ops.append("lrel l%d %s %s %s" % (j, rnd.choice(["lt", "leq", "eq", "geq", "gt"]), l, r))
            pool.append("l%d" % j)
    for th in ("idl", "rdl"):
        if rnd.random() < 0.45:
            theories.add(th)
            nt = rnd.randint(2, 4)
            ops += ["%s var t%d" % (th, i) for i in range(1, nt)]
            for j in range(rnd.randint(1, 5)):
                f, t = rnd.sample(range(nt), 2)
                d = str(rnd.randint(-4, 6)) if th == "idl" else fr(Fraction(rnd.randint(-8, 12), rnd.choice([1, 2]))) + rnd.choice(["", "", "~-1/1"])
                nm = "%s%d" % (th[0] + "d", j)
                ops.append("%s dist %s t%d t%d %s" % (th, nm, f, t, d))
                pool.append(nm)
    if rnd.random() < 0.45:
        theories.add("ov")
        vals = ["v%d" % i for i in range(rnd.randint(2, 4))]
        no = rnd.randint(1, 2)
        for i in range(no):
            dom = rnd.sample(vals, rnd.randint(2, len(vals)))
            ops.append("ovar o%d %s" % (i, " ".join(dom)))
            pool += ["o%d=%s" % (i, v) for v in dom]
        if no == 2:
            ops.append("oeq oe o0 o1")
            pool.append("oe")

    def lit():
        n = rnd.choice(pool)
        return n if rnd.random() < 0.55 else "!" + n
    # reified constructs
    for j in range(rnd.choice([0, 0, 1, 2])):
        kind = rnd.choice(["eq", "conj", "disj", "amo", "exct"])
        args = [lit() for _ in range(2 if kind == "eq" else rnd.randint(2, 4))]
        ops.append("%s r%d %s" % (kind, j, " ".join(args)))
        pool.append("r%d" % j)
    # clauses
    for _ in range(rnd.randint(3, 12)):
        k = rnd.choice([1, 2, 2, 2, 3, 3, 4]) if rnd.random() < 0.9 else 5
        cl = [lit() for _ in range(k)]
        if rnd.random() < 0.1 and len(cl) > 1:
            cl.append(cl[0])
        ops.append("clause " + " ".join(cl))
    ops.append("propagate")
    ops.append("obs")
    nconstr = len(ops)
    depth = 0
    L = rnd.randint(10, 30) if pop_heavy else rnd.randint(6, 22)
    hist = []
    for _ in range(L):
        c = rnd.random()
        if c < (0.5 if pop_heavy else 0.6) or depth == 0:
            hist.append("assume " + lit())
            depth += 1
        elif c < 0.8:
            hist.append("pop")
            depth -= 1
        elif c < 0.88:
            hist.append("next")
            depth -= 1
        elif c < 0.95:
            hist.append("check " + " ".join(lit() for _ in range(rnd.randint(1, 3))))
        else:
            hist.append("root")
            hist.append("simplify")
            depth = 0
    if rnd.random() < 0.6:
        hist.insert(rnd.randrange(len(hist) + 1), "fill %d" % rnd.randint(1, 10 ** 6))
    hist.append("fill %d" % rnd.randint(1, 10 ** 6))
    for h in hist:
        ops.append(h)
        ops.append("obs")
    return {"id": "c07-%d" % idx, "ops": ops, "nconstr": nconstr, "theories": sorted(theories)}


class MixedChecker:
    def __init__(self, case, tr):
        import z3
        self.z3 = z3
        self.case, self.tr = case, tr
        self.fails = []
        self.feats = set()
        self.stats = {"obs": 0, "z3": 0, "learnt": 0, "tconf": 0, "total_assignments": 0, "nogoods": 0}
        self.s = z3.Solver()
        self.s.set("timeout", 8000)
        self.zb = {}
        self.zx, self.zi, self.zr = {}, {}, {}
        self.slack = {}
        self.clauses = []      # all clauses seen through the hook (as lists of (var, sign))
        self.unknown = False
        self.names = {}        # op index -> result literal
        self.dead = False

    def fail(self, key, detail):
        self.fails.append((key, detail))

    def b(self, v):
        if v not in self.zb:
            self.zb[v] = self.z3.Bool("b%d" % v)
        return self.zb[v]

    def zlit(self, s):
        v, sg = net.plit(s) if isinstance(s, str) else s
        if v == 0:
            return self.z3.BoolVal(not sg)
        return self.b(v) if sg else self.z3.Not(self.b(v))

    def lvar(self, v):
        z3 = self.z3
        if v not in self.zx:
            self.zx[v] = z3.Real("x%d" % v)
            if v in self.slack:
                l = self.slack[v]
                t = z3.RealVal(str(l[1]))
                for u, c in l[0].items():
                    t = t + z3.RealVal(str(c)) * self.lvar(u)
                self.s.add(self.zx[v] == t)
        return self.zx[v]

    def tvar(self, th, v):
        z3 = self.z3
        d = self.zi if th == "idl" else self.zr
        if v not in d:
            d[v] = (z3.Int if th == "idl" else z3.Real)("%s_t%d" % (th, v))
            if v == 0:
                self.s.add(d[v] == 0)
        return d[v]

    def zcheck(self, extra):
        z3 = self.z3
        self.stats["z3"] += 1
        self.s.push()
        self.s.add(extra)
        r = self.s.check()
        self.s.pop()
        if r == z3.unknown:
            self.unknown = True
        return r

    def hooks(self, idx, in_next=False):
        z3 = self.z3
        first_learnt = True
        for h in self.tr.hooks(idx):
            k = h["h"]
            if k == "slack":
                l = h["lin"]
                self.slack[h["x"]] = ({int(v): Fraction(*map(int, c.split("/"))) for v, c in l.items() if v != "k"}, Fraction(*map(int, l["k"].split("/"))))
            elif k == "asrt":
                v = net.pq(h["v"])
                zx = self.lvar(h["x"])
                c = z3.RealVal(str(v[0]))
                f = (zx < c if v[1] < 0 else zx <= c) if h["op"] == 0 else (zx > c if v[1] > 0 else zx >= c)
                self.s.add(self.b(h["b"]) == f)
            elif k == "dist":
                th = h["th"]
                w = net.pq(h["d"])
                diff = self.tvar(th, h["to"]) - self.tvar(th, h["from"])
                c = z3.IntVal(int(w[0])) if th == "idl" else z3.RealVal(str(w[0]))
                self.s.add(self.b(h["b"]) == (diff < c if w[1] < 0 else diff <= c))
            elif k == "clause":
                ls = [net.plit(x) for x in h["l"]]
                self.clauses.append(ls)
                self.s.add(z3.Or([self.zlit(x) for x in ls]) if ls else z3.BoolVal(False))
            elif k == "learnt":
                ls = [net.plit(x) for x in h["l"]]
                if in_next and first_learnt:
                    # the no-good next() is documented to add (negation of the standing decisions): an axiom, not a consequence
                    first_learnt = False
                    self.stats["nogoods"] += 1
                    self.clauses.append(ls)
                    self.s.add(z3.Or([self.zlit(x) for x in ls]))
                    continue
                self.stats["learnt"] += 1
                if self.zcheck(z3.Not(z3.Or([self.zlit(x) for x in ls]))) == z3.sat:
                    self.fail("learnt-clause-not-entailed", "learnt clause %s is not entailed by the added clauses and the theories" % h["l"])
            elif k == "tconf":
                self.stats["tconf"] += 1
                if h.get("nf"):
                    self.fail("theory-conflict-with-non-false-literal", "%s conflict clause %s contains literals that are not false when it is reported: %s" % (h["th"], h["l"], h["nf"]))
                ls = [net.plit(x) for x in h["l"]]
                if self.zcheck(z3.Not(z3.Or([self.zlit(x) for x in ls]))) == z3.sat:
                    self.fail("theory-conflict-not-valid", "%s conflict clause %s is not a consequence" % (h["th"], h["l"]))

    def check_obs(self, o, where):
        z3 = self.z3
        self.stats["obs"] += 1
        val = o["val"]
        assigned = []
        for v in range(1, len(val)):
            if val[v] != "2":
                assigned.append(self.b(v) if val[v] == "1" else z3.Not(self.b(v)))
        decs = [self.zlit(s) for s in o["dec"]]
        if assigned:
            r = self.zcheck(decs + [z3.Not(z3.And(assigned))])
            if r == z3.sat:
                # find one culprit for the message
                bad = None
                for v in range(1, len(val)):
                    if val[v] != "2":
                        f = self.b(v) if val[v] == "1" else z3.Not(self.b(v))
                        if self.zcheck(decs + [z3.Not(f)]) == z3.sat:
                            bad = "b%d=%s" % (v, val[v])
                            break
                self.fail("value-not-entailed", "%s: %s is reported but is not a consequence of clauses, theories and the decisions %s" % (where, bad, o["dec"]))
                return False
        if "2" not in val[1:]:
            self.stats["total_assignments"] += 1
            self.feats.add("total-assignment")
            for ls in self.clauses:
                if not any(net.lit_value(val, l) for l in ls if l[0] < len(val)):
                    self.fail("total-assignment-falsifies-clause", "%s: every variable is assigned, propagation succeeded, but clause %s is false" % (where, ls))
                    return False
        return True

    def run(self):
        z3 = self.z3
        tr, ops = self.tr, self.case["ops"]
        prev = None
        for i, op in enumerate(ops, start=1):
            name = op.split()[0]
            self.hooks(i, in_next=(name == "next"))
            r = tr.res(i)
            if r == "skip-dead":
                return
            where = "after op %d '%s'" % (i, op)
            if name == "obs":
                o = tr.obs(i)
                if not self.check_obs(o, where):
                    return
                prev = o
                continue
            if name in ("clause", "propagate", "simplify") and r is False:
                self.feats.add("root-false")
                if self.zcheck([]) == z3.sat:
                    self.fail(name + "-false-but-satisfiable", "%s: answered false although clauses + theories are satisfiable" % where)
                return
            if name == "assume" and r is False:
                self.feats.add("root-false")
                if self.zcheck([]) == z3.sat:
                    self.fail("assume-false-but-satisfiable", "%s: answered false (root-level conflict) although clauses + theories (+ recorded no-goods) are satisfiable" % where)
                return
            if name == "assume" and r is True:
                self.feats.add("assume")
            if name == "next":
                if r is False and prev is not None and prev["lvl"] > 0:
                    self.feats.add("next-false")
                    if self.zcheck([]) == z3.sat:
                        self.fail("next-false-but-satisfiable", "%s: answered false although clauses + theories + no-goods are satisfiable" % where)
                    return
                if r is True:
                    self.feats.add("next")
            if name == "check":
                self.feats.add("check")
                if r is False and prev is not None:
                    lits = []
                    ok = True
                    for a in op.split()[1:]:
                        nm = a.lstrip("!")
                        if nm not in self.lits:
                            ok = False
                            break
                        v, sg = self.lits[nm]
                        lits.append(self.zlit((v, sg != a.startswith("!"))))
                    if ok and self.zcheck([self.zlit(s) for s in prev["dec"]] + lits) == z3.sat:
                        self.fail("check-false-but-satisfiable", "%s: check answered false although clauses + theories + decisions + the given literals are satisfiable" % where)
                        return
                    # check() cannot tell its caller whether the refutation reached root level: if the clauses themselves are
                    # unsatisfiable the network is legitimately unusable from here on
                    nxt = tr.obs(i + 1) if i + 1 in tr.rets else None
                    if nxt is not None and nxt["lvl"] == 0 and self.zcheck([]) == z3.unsat:
                        self.feats.add("root-false")
                        return
            if name == "pop" and r is True:
                self.feats.add("pop")
            if name == "fill":
                self.feats.add("fill")
                if isinstance(r, dict) and r.get("ok") is False:
                    nxt = tr.obs(i + 1) if i + 1 in tr.rets else None
                    if nxt is not None and nxt["lvl"] == 0:
                        self.feats.add("root-false")
                        if self.zcheck([]) == z3.sat:
                            self.fail("assume-false-but-satisfiable", "%s: an assumption answered false (root-level conflict) although clauses + theories (+ no-goods) are satisfiable" % where)
                        return
        return

    def prepare(self):
        """collect the literal each named thing stands for"""
        self.lits = {}
        for i, op in enumerate(self.case["ops"], start=1):
            t = op.split()
            r = self.tr.rets.get(i, {}).get("res")
            if t[0] in ("bvar", "eq", "conj", "disj", "amo", "exct", "lrel", "oeq") and isinstance(r, str) and r.lstrip("!").startswith("b"):
                self.lits[t[1]] = net.plit(r)
            elif t[0] in ("idl", "rdl") and t[1] == "dist" and isinstance(r, str) and r.lstrip("!").startswith("b"):
                self.lits[t[2]] = net.plit(r)
            elif t[0] == "ovar" and isinstance(r, dict):
                for v, l in r["allows"].items():
                    self.lits["%s=%s" % (t[1], v)] = net.plit(l)


def work(exes, start, n, pop_heavy, pid):
    part = common.Partial()
    exe = exes[(start // max(n, 1)) % len(exes)]
    rnd = common.rng("MIXED", start, pop_heavy)
    cases = [gen_case(rnd, start + i, pop_heavy) for i in range(n)]
    traces = net.run_cases(exe, [net.program(c["id"], c["ops"]) for c in cases])
    for case, tr in zip(cases, traces):
        fp = common.fingerprint(case["ops"])
        if tr is None:
            part.inconc("no answer")
            continue
        if isinstance(tr, drv.Crash):
            part.inconc("timeout" if tr.timeout else "abort (owned by C18): " + tr.site())
            continue
        ck = MixedChecker(case, tr)
        try:
            ck.prepare()
            ck.run()
        except (KeyError, IndexError, TypeError):
            import traceback
            part.harness_errors.append("checker error on %s: %s" % (case["id"], traceback.format_exc()[-700:]))
            continue
        if ck.unknown:
            part.inconc("z3 unknown/timeout")
            continue
        nontriv = ck.stats["learnt"] > 0 or ck.stats["tconf"] > 0
        part.case(fp, nontriv, {"ops": case["ops"][:70]})
        for f in ck.feats:
            part.count("feature:" + f)
        for th in case["theories"]:
            part.count("theory:" + th)
        part.count("build:" + ("rel" if "/rel-" in exe else "dbg"))
        part.count("observations checked (entailment of all assigned literals)", ck.stats["obs"])
        part.count("learnt clauses checked for entailment", ck.stats["learnt"])
        part.count("theory conflicts checked", ck.stats["tconf"])
        part.count("next() no-goods admitted as axioms", ck.stats["nogoods"])
        part.count("total assignments evaluated against all clauses", ck.stats["total_assignments"])
        part.count("z3 queries", ck.stats["z3"])
        done = set()
        for key, d in ck.fails:
            if key in done:
                continue
            done.add(key)
            part.violation("net/" + key, d, {"ops": case["ops"], "detail": d, "driver": "net_drv"})
    return part.dump()


def run(tier):
    res = common.Result(PID, tier, "a history = 3-8 boolean variables, optional LRA / IDL / RDL / OV parts with relation, distance, value and equality literals, 0-2 reified "
                        "constructs, 3-12 clauses (1-5 literals, duplicates) over all of them, then 6-22 assume / pop / next / check / simplify_db steps "
                        "(preconditions respected by the driver) on Debug and Release builds; after every step z3 decides whether ALL assigned literals follow from "
                        "Phi = every clause seen through the new_clause hook + the meaning of every theory literal (hooks) + the no-goods next() adds + the standing "
                        "decisions; every 'false' answer is compared with satisfiability of Phi (+ assumptions for check); every learnt clause and theory "
                        "conflict is checked for entailment; complete assignments are evaluated against every clause; non-trivial = at least one clause was learnt "
                        "or a theory conflict occurred")
    res.assumptions = ["z3 is the reference decision procedure for the small mixed formulas the harness wrote down itself",
                       "incompleteness is never a violation: unassigned literals and 'true' answers on partial assignments are always accepted"]
    exes = [build.driver("dbg", "net_drv"), build.driver("rel", "net_drv")]
    total = 4800 if tier == "quick" else 200000
    per = 50 if tier == "quick" else 200
    common.pmap(work, [(exes, s, per, False, PID) for s in range(0, total, per)], res)
    res.gate("learnt clauses observed", res.counters.get("learnt clauses checked for entailment", 0) > 0)
    res.gate("theory conflicts observed", res.counters.get("theory conflicts checked", 0) > 0)
    res.gate("next() exercised", res.counters.get("feature:next", 0) > 0)
    res.gate("check() exercised", res.counters.get("feature:check", 0) > 0)
    return res.finish()
