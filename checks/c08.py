"""C08 - undoing decisions restores the network exactly.

Three monitors, one verdict:
  (a) LRA: after every step of pop-heavy histories lb/ub of every variable (slacks included) equal the tightest bound among the
      assertions whose literal is currently assigned (plus the bounds the slack had at creation);
  (b) IDL/RDL: after every step the distance matrix equals the exact closure of exactly the constraints whose literal is assigned;
  (c) mixed networks: at checkpoints after pops / next / back-to-root, a TWIN network (same construction calls, never having taken the
      undone decisions, only assuming the decisions still standing) must not know anything the main network lost, and when both have the
      same assigned literals every bound, distance and object domain must be identical.
"""
from vlib import build, common, drv, net
from checks import c07, c10, lra

PID = "C08"


def q_tighter_or_equal(main, twin, lower):
    from vlib.xnum import q_cmp
    a, b = net.pq(main), net.pq(twin)
    c = q_cmp(a, b)
    return c >= 0 if lower else c <= 0


def compare(main, twin, where):
    """returns list of (key, detail)"""
    fails = []
    mv, tv = main["val"], twin["val"]
    n = min(len(mv), len(tv))
    for v in range(1, n):
        # which literals THEORY PROPAGATION reaches depends on the tableau's pivoting history (a bound on a variable that a past, undone
        # decision made basic is not propagated through the rows; incompleteness, not unsoundness): a twin that never pivoted may propagate
        # more, also at root level.  The property speaks about the state as a function of the ASSIGNED literals, so the literal comparison is
        # limited to contradictions; that nothing assigned at root level is ever lost is checked on the main history itself (root_monotone).
        if tv[v] != "2" and mv[v] != tv[v] and mv[v] != "2":
            fails.append(("twin/literal-lost-or-different", "%s: b%d is %s in a network that only took the standing decisions %s but %s in the network that came back to them" % (where, v, tv[v], main["dec"], mv[v])))
            return fails
    same = mv[:n] == tv[:n]
    twin_knows_more = any(tv[v] != "2" and mv[v] == "2" for v in range(1, n))
    if twin_knows_more:
        return fails      # only possible above root level (see above): the theory states are then not comparable
    from vlib.xnum import q_cmp
    from vlib import dl
    for x, (m, t) in enumerate(zip(main["lra"], twin["lra"])):
        if same:
            if q_cmp(net.pq(m[1]), net.pq(t[1])) != 0 or q_cmp(net.pq(m[2]), net.pq(t[2])) != 0:
                fails.append(("twin/lra-bounds-differ", "%s: x%d has bounds [%s, %s] but the twin network has [%s, %s] with the same assigned literals" % (where, x, m[1], m[2], t[1], t[2])))
                return fails
        elif not (q_tighter_or_equal(m[1], t[1], True) and q_tighter_or_equal(m[2], t[2], False)):
            fails.append(("twin/lra-bounds-looser", "%s: x%d has bounds [%s, %s], looser than the twin network's [%s, %s]" % (where, x, m[1], m[2], t[1], t[2])))
            return fails
    if same:
        for k in ("idl", "rdl", "ov"):
            a, b = main[k], twin[k]
            if k == "rdl":
                a = [[dl.parse_w(x, "rdl") for x in row] for row in a]
                b = [[dl.parse_w(x, "rdl") for x in row] for row in b]
            if a != b:
                fails.append(("twin/%s-state-differs" % k, "%s: %s state %s differs from the twin network's %s with the same assigned literals" % (where, k, main[k], twin[k])))
                return fails
    return fails


def twin_work(exes, start, n):
    part = common.Partial()
    exe = exes[(start // max(n, 1)) % len(exes)]
    rnd = common.rng("MIXED", start, True)
    cases = [c07.gen_case(rnd, 500000 + start + i, True) for i in range(n)]
    traces = net.run_cases(exe, [net.program(c["id"], c["ops"]) for c in cases])
    twins = []
    for case, tr in zip(cases, traces):
        if not isinstance(tr, net.Trace):
            part.inconc("abort/timeout in main network (owned by C18)" if tr is not None else "no answer")
            continue
        ops = case["ops"]
        # root-level assignments are never undone: every later observation must still show them
        root_known = {}
        clauses = []        # every clause the core has been given or has learnt so far (hooks)
        bcp_done = False
        # a network that has become inconsistent at root level (or lost a level in check) is not used any further: the driver skips the
        # remaining operations; the operation that killed it is two places before the first skipped one
        dead_from = min([j for j in range(1, len(ops) + 1) if tr.rets.get(j, {}).get("res") == "skip-dead"] or [len(ops) + 3]) - 2
        # check() at root level that ends in a root-level conflict returns false and leaves an inconsistent (finished) network behind without
        # any level being lost: nothing after such a call is judged
        for j in range(2, len(ops) + 1):
            r = tr.rets.get(j, {}).get("res")
            if ops[j - 1].startswith("fill") and isinstance(r, dict) and r.get("ok") is False:
                dead_from = min(dead_from, j)       # the extension to a total assignment ended in a root-level conflict
                break
            if ops[j - 1].startswith("check") and r is False:
                before = tr.obs(j - 1) if ops[j - 2] == "obs" and (j - 1) in tr.rets else None
                if before is not None and before["lvl"] == 0:
                    dead_from = min(dead_from, j)
                    break
        for i in range(1, len(ops) + 1):
            for h in tr.hooks(i):
                if h["h"] in ("clause", "learnt"):
                    clauses.append([net.plit(x) for x in h["l"]])
            if ops[i - 1] != "obs" or i not in tr.rets:
                continue
            o = tr.obs(i)
            if o is None:
                continue
            # unit propagation over clauses is complete and does not depend on the history: at an observation no clause may be falsified or
            # unit (this is what a learnt clause that watches the wrong literals, or a watcher lost on backtracking, breaks)
            if not bcp_done and i > case["nconstr"] and i < dead_from:
                val = o["val"]
                for cl in clauses:
                    und, sat = [], False
                    for (v, sg) in cl:
                        x = val[v] if v < len(val) else "2"
                        if x == "2":
                            und.append((v, sg))
                        elif (x == "1") == sg:
                            sat = True
                            break
                    if not sat and len(set(und)) <= 1 and not any((v, not sg) in cl for (v, sg) in cl):
                        part.count("clause states checked at observations")
                        d = "after op %d '%s' the clause %s is %s under the reported assignment" % (i - 1, ops[i - 2], " ".join(("" if sg else "!") + "b%d" % v for v, sg in cl), "falsified" if not und else "unit but its last literal is unassigned")
                        part.violation("net/clause-not-propagated", d, {"ops": ops, "detail": d, "driver": "net_drv"})
                        bcp_done = True
                        break
                part.count("observations checked for pending unit / falsified clauses")
            part.count("observations checked against the root-level assignment")
            lost = [v for v, x in root_known.items() if v < len(o["val"]) and o["val"][v] != x]
            if lost:
                v = lost[0]
                d = "b%d was %s at root level (observation before op %d) but is %s after op %d '%s'" % (v, root_known[v], i, o["val"][v], i - 1, ops[i - 2])
                part.violation("net/root-level-literal-lost", d, {"ops": ops, "detail": d, "driver": "net_drv"})
                break
            if o["lvl"] == 0:
                for v, x in enumerate(o["val"]):
                    if v >= 1 and x != "2":
                        root_known[v] = x
        cps = []
        for i in range(case["nconstr"] + 1, len(ops), 2):
            name = ops[i - 1].split()[0] if i >= 1 else ""
            # ops[i-1] is the history op (1-based index i), ops[i] the obs (index i+1)
            r = tr.rets.get(i, {}).get("res")
            if r == "skip-dead":
                break
            if name in ("pop", "next", "root", "simplify") and r is True and (i + 1) in tr.rets and tr.obs(i + 1) is not None:
                cps.append(i + 1)
        rnd2 = common.rng("TWIN", case["id"])
        rnd2.shuffle(cps)
        for cp in cps[:3]:
            o = tr.obs(cp)
            # next() adds a no-good the twin would not have: replay it as a clause at root
            extra = []
            for j in range(1, cp):
                if ops[j - 1].split()[0] == "next":
                    hs = tr.hooks(j, "learnt")
                    if hs:
                        extra.append("clause " + " ".join(hs[0]["l"]))
            prog = ops[:case["nconstr"] - 2] + extra + ["propagate"] + ["assume " + d for d in o["dec"]] + ["obs"]
            twins.append((case, cp, o, prog))
    ttr = net.run_cases(exe, [net.program("twin", p) for (_, _, _, p) in twins])
    seen_cases = set()
    for (case, cp, o, prog), tt in zip(twins, ttr):
        fp = common.fingerprint([case["ops"], cp])
        if not isinstance(tt, net.Trace):
            part.inconc("abort/timeout in twin network")
            continue
        last = len(prog)
        to = tt.obs(last)
        nd = len(o["dec"])
        ok = to is not None and to["lvl"] == nd and all(tt.res(last - 1 - k) is True for k in range(nd))
        if not ok:
            part.count("twin could not re-take the standing decisions (skipped)")
            part.case(None, False)
            continue
        part.case(fp, True, {"main_ops": case["ops"][:60], "checkpoint": cp, "standing_decisions": o["dec"]})
        part.count("twin checkpoints compared")
        if o["val"][:len(to["val"])] == to["val"][:len(o["val"])]:
            part.count("twin checkpoints with identical assigned literals (full state compared)")
        if o["lvl"] == 0:
            part.count("twin checkpoints at root level")
        for key, d in compare(o, to, "checkpoint after op %d '%s'" % (cp - 1, case["ops"][cp - 2])):
            part.violation("net/" + key, d, {"ops": case["ops"], "twin_ops": prog, "detail": d, "driver": "net_drv"})
    return part.dump()


def dl_work(exes, start, n):
    d = c10.work(exes, start, n, True, PID)
    # C08 owns the 'matrix is the closure of the assigned constraints' verdict and explanations naming literals that are no longer assigned
    # (state that was not restored); the rest is reported under C10
    keep = []
    for v in d["violations"]:
        if v[0].endswith("/distance-mismatch") or v[0].endswith("/explanation-with-non-false-literal"):
            keep.append(v)
        else:
            d["counters"]["failures owned by C10"] = d["counters"].get("failures owned by C10", 0) + 1
    d["violations"] = keep
    return d


def run(tier):
    res = common.Result(PID, tier, "pop-heavy assume/pop/next/root histories: (a) LRA systems - bounds of every variable recomputed from the assigned assertion literals after "
                        "every step; (b) IDL/RDL networks - full matrix vs closure of the assigned constraints after every step (chains superseded by direct edges and "
                        "restored by pops included); (c) mixed SAT+LRA+IDL+RDL+OV networks - up to 3 checkpoints per history compared with a twin network that only "
                        "took the standing decisions; non-trivial = the history contained a pop/conflict (a, b) or the twin could re-take the decisions (c)")
    res.assumptions = ["LRA *values* are not part of the compared state (they legitimately depend on the pivoting history); bounds, distances, domains and literal values are",
                       "a main network may know more than its twin (sound learnt clauses) or less (theory propagation is incomplete and depends on the pivoting history); the two must never contradict each other, and nothing assigned at root level may ever be lost"]
    exes = [build.driver("dbg", "net_drv"), build.driver("rel", "net_drv")]
    total = 2400 if tier == "quick" else 80000
    per = 50 if tier == "quick" else 200
    common.pmap(lra.work, [(exes, s + 300000, per, True, PID) for s in range(0, total, per)], res)
    common.pmap(dl_work, [(exes, s + 300000, per) for s in range(0, total, per)], res)
    common.pmap(twin_work, [(exes, s, per) for s in range(0, total, per)], res)
    res.gate("LRA bound recomputations compared", res.counters.get("bound recomputations compared", 0) > 1000)
    res.gate("DL matrices compared", res.counters.get("observations compared", 0) > 1000)
    res.gate("twin checkpoints compared", res.counters.get("twin checkpoints compared", 0) > 100)
    res.gate("multi-level pops reached", res.counters.get("feature:deep-pop", 0) > 0)
    return res.finish()
