"""C09 - LRA: reported values are a model, bounds contain every solution, conflicts/lemmas are valid, failure iff infeasible."""
from vlib import build, common
from checks import lra

PID = "C09"


def run(tier):
    res = common.Result(PID, tier, "a history = 2-5 numeric variables, 3-10 relation requests (rational coefficients, shared sub-expressions, terms on both sides, "
                        "cancelling variables) created at root with interleaved root assertions and optional clauses, then 4-14 assume / assume-negated / "
                        "pop / root steps on Debug and Release builds; after every successful step: values within bounds, slack definitions hold, every "
                        "assigned assertion holds on the values (eps-strict), z3 confirms feasibility and that no bound cuts off a real solution; every "
                        "refutation is confirmed infeasible by z3; every theory conflict (LRA alone) and learnt clause (with the added clauses) seen through "
                        "the hooks is validated; non-trivial = conflict, pop, shortcut or shared literal occurred")
    res.assumptions = ["z3 (Real arithmetic, strict inequalities) is the reference for feasibility / entailment of the small systems the harness wrote itself",
                       "coefficients are small rationals: no 64-bit overflow"]
    exes = [build.driver("dbg", "net_drv"), build.driver("rel", "net_drv")]
    total = 4800 if tier == "quick" else 150000
    per = 50 if tier == "quick" else 200
    common.pmap(lra.work, [(exes, s, per, False, PID) for s in range(0, total, per)], res)
    res.gate("conflicts reached", res.counters.get("feature:conflict", 0) > 0)
    res.gate("theory conflicts validated through the hook", res.counters.get("theory conflicts validated", 0) > 0)
    res.gate("learnt clauses validated through the hook", res.counters.get("learnt clauses validated", 0) > 0)
    return res.finish()
