"""C10 - difference logic (IDL and RDL): exact distances, conflicts iff negative cycle, valid explanations.

Also provides the DL part of C08 (pop-heavy histories): after every step the reported matrix must be
the closure of exactly the constraints whose literal is currently assigned.
"""
from fractions import Fraction

from vlib import build, common, dl, drv, net

PID = "C10"


def fmt_d(kind, w):
    if kind == "idl":
        return str(int(w[0]))
    s = "%d/%d" % (w[0].numerator, w[0].denominator)
    if w[1] != 0:
        s += "~%d/%d" % (w[1].numerator, w[1].denominator)
    return s


def gen_chain_case(rnd, idx):
    """chain a->b->..->z asserted first, then a tighter direct edge a->z one level deeper (supersedes the path and its
    predecessors), pop (path and predecessors must come back), then literals whose propagation / conflict needs the
    explanation along the restored path"""
    kind = rnd.choice(["idl", "rdl"])
    L = rnd.randint(2, 4)
    n = L + 1 + rnd.randint(1, 3)
    pts = rnd.sample(range(n), L + 1)
    cons = []
    tot = 0
    for a, b in zip(pts, pts[1:]):
        d = rnd.randint(1, 5)
        tot += d
        cons.append((a, b, (Fraction(d), Fraction(0))))
    nchain = len(cons)
    direct = len(cons)
    cons.append((pts[0], pts[-1], (Fraction(tot - rnd.randint(1, 3)), Fraction(0))))
    # literals decided by the path: z - a <= tot (entailed), a - z <= -tot-1 (refuted), and near misses
    probes = []
    for w in (tot, tot + 1, tot - 1):
        probes.append(len(cons))
        cons.append((pts[0], pts[-1], (Fraction(w), Fraction(0))))
    for w in (-tot - 1, -tot, -tot + 1):
        probes.append(len(cons))
        cons.append((pts[-1], pts[0], (Fraction(w), Fraction(0))))
    # an extension z -> y asserted only after the pop: the literals on (a, y) then need an explanation that
    # runs over the restored predecessors of the chain
    others = [p for p in range(n) if p not in pts]
    ext = None
    ext_probes = []
    if others:
        y = rnd.choice(others)
        dy = rnd.randint(1, 4)
        ext = len(cons)
        cons.append((pts[-1], y, (Fraction(dy), Fraction(0))))
        for f, t, w in ((pts[0], y, tot + dy), (y, pts[0], -(tot + dy) - 1), (pts[0], y, tot + dy + 1)):
            ext_probes.append(len(cons))
            cons.append((f, t, (Fraction(w), Fraction(0))))
    for _ in range(rnd.randint(0, 3)):
        f, t = rnd.sample(range(n), 2)
        cons.append((f, t, (Fraction(rnd.randint(-3, 8)), Fraction(0))))
    m = len(cons)
    steps = [("dist", i) for i in range(m)] + [("propagate",)]
    hist = []
    order = list(range(nchain))
    rnd.shuffle(order)
    split = rnd.randint(0, nchain)
    for i in order:
        hist.append(("assume", i, True))
    hist.append(("assume", direct, True))
    hist.append(("pop",))
    if ext is not None:
        hist.append(("assume", ext, True))
        for i in ext_probes:
            hist.append(("assume", i, rnd.random() < 0.5))
            if rnd.random() < 0.5:
                hist.append(("pop",))
    for i in rnd.sample(probes, len(probes)):
        hist.append(("assume", i, rnd.random() < 0.5))
        if rnd.random() < 0.5:
            hist.append(("pop",))
    for _ in range(rnd.randint(0, 4)):
        hist.append(rnd.choice([("pop",), ("assume", rnd.randrange(m), rnd.random() < 0.6)]))
    return {"id": "c10-%d" % idx, "kind": kind, "n": n, "cons": cons, "steps": steps, "hist": hist, "clauses": [], "family": "chain"}


def gen_case(rnd, idx, pop_heavy=False, big=False):
    if not big and rnd.random() < 0.25:
        return gen_chain_case(rnd, idx)
    kind = rnd.choice(["idl", "rdl"])
    n = rnd.randint(3, 7)
    if big:
        n = rnd.randint(16, 20)
    cons = []
    m = rnd.randint(4, 12) + (6 if big else 0)
    pairs = []
    for _ in range(m):
        if pairs and rnd.random() < 0.35:
            f, t = rnd.choice(pairs)
            if rnd.random() < 0.3:
                f, t = t, f
        else:
            f, t = rnd.sample(range(n), 2)
        pairs.append((f, t))
        if kind == "idl":
            w = (Fraction(rnd.randint(-6, 9)), Fraction(0))
        else:
            w = (Fraction(rnd.randint(-12, 18), rnd.choice([1, 1, 2, 3])), Fraction(rnd.choice([0, 0, 0, -1])))
        cons.append((f, t, w))
    steps = []   # construction program: ("dist", i) | ("unit", i, pos) | ("propagate",)
    order = list(range(m))
    created = []
    for i in order:
        steps.append(("dist", i))
        created.append(i)
        if rnd.random() < 0.18:
            steps.append(("unit", rnd.choice(created), rnd.random() < 0.75))
            if rnd.random() < 0.7:
                steps.append(("propagate",))
    # clauses over the constraint literals: the SAT core then assigns constraint literals the theory has not seen yet
    clauses = []
    if rnd.random() < 0.45:
        for _ in range(rnd.randint(1, 4)):
            k = rnd.randint(2, 3)
            clauses.append([(rnd.randrange(m), rnd.random() < 0.5) for _ in range(k)])
        for cl in clauses:
            steps.append(("clause", cl))
    steps.append(("propagate",))
    hist = []
    depth = 0
    L = rnd.randint(8, 24) if pop_heavy else rnd.randint(5, 16)
    for _ in range(L):
        c = rnd.random()
        p_assume = 0.5 if pop_heavy else 0.65
        if c < p_assume or depth == 0:
            i = rnd.randrange(m)
            hist.append(("assume", i, rnd.random() < 0.65))
            depth += 1
        elif c < 0.93:
            hist.append(("pop",))
            depth -= 1
        else:
            hist.append(("root",))
            depth = 0
    return {"id": "c10-%d" % idx, "kind": kind, "n": n, "cons": cons, "steps": steps, "hist": hist, "clauses": clauses}


def ops_of(case):
    k = case["kind"]
    ops = ["%s var t%d" % (k, i) for i in range(1, case["n"])]
    tp = lambda i: "t%d" % i

    def name_tp(i):
        return tp(i)
    for st in case["steps"]:
        if st[0] == "dist":
            f, t, w = case["cons"][st[1]]
            ops.append("%s dist c%d %s %s %s" % (k, st[1], "t%d" % f, "t%d" % t, fmt_d(k, w)))
        elif st[0] == "unit":
            ops.append("clause %sc%d" % ("" if st[2] else "!", st[1]))
        elif st[0] == "clause":
            ops.append("clause " + " ".join("%sc%d" % ("" if p else "!", i) for i, p in st[1]))
        else:
            ops.append("propagate")
    ops.append("obs")
    for h in case["hist"]:
        if h[0] == "assume":
            ops.append("assume %sc%d" % ("" if h[2] else "!", h[1]))
        else:
            ops.append(h[0])
        ops.append("obs")
    return ops


def driver_ops(case):
    # time point 0 is the origin, known to the driver under the name t0 only if declared: declare it as alias
    return ops_of(case)


class DLChecker:
    def __init__(self, case, tr):
        self.case = case
        self.tr = tr
        self.kind = case["kind"]
        self.n = case["n"]
        self.fails = []
        self.feats = set()
        self.lit = {}      # constraint index -> (var, sign)
        self.by_var = {}   # sat var -> (f, t, w) from the hook
        self.units = []    # (index, pos)
        self.stats = {"obs": 0, "lemmas": 0, "tconf": 0, "z3": 0}
        self.z3 = None
        if case.get("clauses"):
            self.feats.add("clauses-over-constraint-literals")

    # ---- SMT reference for cases with propositional clauses over the constraint literals
    def z3_setup(self):
        import z3
        self.z3m = z3
        self.zs = z3.Solver()
        self.zs.set("timeout", 5000)
        mk = z3.Int if self.kind == "idl" else z3.Real
        self.zt = [mk("t%d" % i) for i in range(self.n)]
        self.zs.add(self.zt[0] == 0)
        self.zb = {}
        for v, (f, t, w) in self.by_var.items():
            b = z3.Bool("b%d" % v)
            self.zb[v] = b
            diff = self.zt[t] - self.zt[f]
            rhs = z3.RealVal(str(w[0])) if self.kind == "rdl" else z3.IntVal(int(w[0]))
            self.zs.add(b == (diff < rhs if w[1] < 0 else diff <= rhs))
        for st in self.case["steps"][:self.done_steps]:
            if st[0] == "clause":
                self.zs.add(z3.Or([self.zlit_idx(i, p) for i, p in st[1]]))
            elif st[0] == "unit":
                self.zs.add(self.zlit_idx(st[1], st[2]))
        self.z3 = True

    def zlit_idx(self, i, pos):
        z3 = self.z3m
        l = self.lit[i]
        if l[0] == 0:
            val = (not l[1]) == pos
            return z3.BoolVal(val)
        b = self.zb[l[0]]
        return b if (l[1] == pos) else z3.Not(b)

    def zlit(self, s):
        z3 = self.z3m
        v, sg = net.plit(s)
        if v == 0:
            return z3.BoolVal(not sg)
        if v not in self.zb:
            return None
        return self.zb[v] if sg else z3.Not(self.zb[v])

    def z3_entails_clause(self, lits):
        """True / False / None(unknown)"""
        z3 = self.z3m
        zl = [self.zlit(s) for s in lits]
        if any(x is None for x in zl):
            return None
        self.stats["z3"] += 1
        self.zs.push()
        self.zs.add(z3.Not(z3.Or(zl)))
        r = self.zs.check()
        self.zs.pop()
        if r == z3.unsat:
            return True
        if r == z3.sat:
            return False
        return None

    def fail(self, what, detail):
        self.fails.append((what, detail))

    def con(self, i, pos):
        f, t, w = self.case["cons"][i]
        return (f, t, w) if pos else dl.negate(self.kind, f, t, w)

    def active_from_val(self, val):
        act = []
        for i, l in self.lit.items():
            if l[0] == 0:
                continue
            v = net.lit_value(val, l)
            if v is None:
                continue
            act.append(self.con(i, v))
        return act

    def clause_valid(self, lits):
        """a clause over constraint literals is valid iff the conjunction of its negations is inconsistent"""
        cs = []
        for s in lits:
            v, sg = net.plit(s)
            if v == 0:
                if not sg:      # !b0 = TRUE literal: clause trivially valid
                    return True
                continue        # b0 = FALSE literal: ignore
            if v not in self.by_var:
                return None
            f, t, w = self.by_var[v]
            # the literal (v, sg) in the clause; its negation holds in the counter-model
            cs.append(dl.negate(self.kind, f, t, w) if sg else (f, t, w))
        return not dl.consistent(self.n, cs)

    def check_hooks(self, idx):
        for h in self.tr.hooks(idx):
            if h["h"] == "dist":
                self.by_var[h["b"]] = (h["from"], h["to"], dl.parse_w(h["d"], "rdl"))
            elif h["h"] in ("learnt", "tconf"):
                self.stats["lemmas" if h["h"] == "learnt" else "tconf"] += 1
                if h["h"] == "tconf" and h.get("nf"):
                    self.fail("explanation-with-non-false-literal", "the conflict clause %s contains literals that are not false when it is reported: %s" % (h["l"], h["nf"]))
                if h["h"] == "learnt" and self.case.get("clauses") and self.z3:
                    v = self.z3_entails_clause(h["l"])    # conflict analysis may resolve with the input clauses
                else:
                    v = self.clause_valid(h["l"])
                if v is None:
                    continue
                if not v:
                    self.fail("invalid-explanation" if h["h"] == "tconf" else "invalid-lemma",
                              "%s clause %s is not a consequence of difference logic (its negation has no negative cycle); constraints: %s" % (
                                  h["h"], h["l"], {s: self.by_var.get(net.plit(s)[0]) and (self.by_var[net.plit(s)[0]][0], self.by_var[net.plit(s)[0]][1], dl.fmt_w(self.by_var[net.plit(s)[0]][2])) for s in h["l"]}))

    def check_obs(self, o, where, judge_matrix=True):
        self.stats["obs"] += 1
        val = o["val"]
        act = self.active_from_val(val)
        D, ok = dl.closure(self.n, act)
        if not ok:
            self.fail("negative-cycle-accepted", "%s: the currently assigned constraints contain a negative cycle but no conflict was signalled" % where)
            return False
        got = o[self.kind]
        if len(got) != self.n:
            self.fail("harness", "matrix size %d != %d" % (len(got), self.n))
            return False
        for i in range(self.n):
            for j in range(self.n):
                g = dl.parse_w(got[i][j], self.kind)
                if g != D[i][j]:
                    self.fail("distance-mismatch", "%s: distance(%d,%d) reported %s, exact closure of the assigned constraints gives %s" % (where, i, j, dl.fmt_w(g) if g != "neginf" else "-inf", dl.fmt_w(D[i][j])))
                    return False
        # undecided constraints that the distances already decide
        for i, l in self.lit.items():
            if l[0] == 0 or net.lit_value(val, l) is not None:
                continue
            f, t, w = self.case["cons"][i]
            if dl.w_le(D[f][t], w) and D[f][t] is not None:
                self.fail("not-propagated", "%s: constraint c%d (%d->%d <= %s) is entailed by the distances but its literal is undecided" % (where, i, f, t, dl.fmt_w(w)))
                break
            nf, nt, nw = dl.negate(self.kind, f, t, w)
            if D[nf][nt] is not None and dl.w_le(D[nf][nt], nw):
                self.fail("not-propagated", "%s: constraint c%d (%d->%d <= %s) is refuted by the distances but its literal is undecided" % (where, i, f, t, dl.fmt_w(w)))
                break
        if self.case.get("clauses"):
            if self.z3:
                z3 = self.z3m
                assigned = []
                for i, l in self.lit.items():
                    if l[0] == 0:
                        continue
                    v = net.lit_value(val, l)
                    if v is not None:
                        assigned.append(self.zlit_idx(i, v))
                decs = [self.zlit(s) for s in o["dec"]]
                if assigned and all(d is not None for d in decs):
                    self.stats["z3"] += 1
                    self.zs.push()
                    self.zs.add(decs)
                    self.zs.add(z3.Not(z3.And(assigned)))
                    r = self.zs.check()
                    self.zs.pop()
                    if r == z3.sat:
                        self.fail("unsound-inference", "%s: some assigned constraint literal does not follow from clauses, root constraints and the decisions %s" % (where, o["dec"]))
            return True
        # soundness of what is assigned: must follow from root units + standing decisions
        base = [self.con(i, p) for i, p in self.units]
        for s in o["dec"]:
            v, sg = net.plit(s)
            if v in self.by_var:
                f, t, w = self.by_var[v]
                base.append((f, t, w) if sg else dl.negate(self.kind, f, t, w))
        Db, okb = dl.closure(self.n, base)
        if okb:
            for i, l in self.lit.items():
                if l[0] == 0:
                    continue
                v = net.lit_value(val, l)
                if v is None:
                    continue
                f, t, w = self.con(i, v)
                if not (Db[f][t] is not None and dl.w_le(Db[f][t], w)):
                    self.fail("unsound-inference", "%s: c%d is assigned %s but that does not follow from the root constraints and the standing decisions %s" % (where, i, v, o["dec"]))
                    break
        return True

    def run(self):
        tr, case = self.tr, self.case
        idx = 1
        for _ in range(1, self.n):
            idx += 1
        root_units_all = []
        dead = False
        self.done_steps = 0
        for st in case["steps"]:
            self.done_steps += 1
            self.check_hooks(idx)
            r = tr.res(idx)
            if st[0] == "dist":
                l = net.plit(r)
                self.lit[st[1]] = l
                f, t, w = case["cons"][st[1]]
                if l[0] == 0:
                    self.feats.add("shortcut-const")
                    # a constant must be justified by the root constraints asserted so far
                    D, ok = dl.closure(self.n, [self.con(i, p) for i, p in self.units])
                    if ok:
                        is_true = not l[1]
                        if is_true and not (D[f][t] is not None and dl.w_le(D[f][t], w)):
                            self.fail("unjustified-true", "new_distance(%d,%d,%s) returned TRUE but the root constraints do not entail it" % (f, t, dl.fmt_w(w)))
                        nf, nt, nw = dl.negate(self.kind, f, t, w)
                        if not is_true and not (D[nf][nt] is not None and dl.w_le(D[nf][nt], nw)):
                            self.fail("unjustified-false", "new_distance(%d,%d,%s) returned FALSE but the root constraints do not refute it" % (f, t, dl.fmt_w(w)))
                else:
                    self.feats.add("created")
            elif st[0] == "unit":
                if r is False:
                    dead = True
                self.units.append((st[1], st[2]))
            elif st[0] == "clause":
                if r is False:
                    dead = True
            else:
                if r is False:
                    dead = True
            idx += 1
            if dead:
                break
        if self.case.get("clauses") and not dead:
            self.z3_setup()
        if dead and self.case.get("clauses"):
            self.z3_setup()
            if self.zs.check() == self.z3m.sat:
                self.fail("root-failure-on-consistent", "the network reported inconsistency at root level but clauses + constraints are satisfiable")
            self.feats.add("root-inconsistent")
            return
        if dead:
            # the network reported a root-level inconsistency: the root units must really be inconsistent
            cs = [self.con(i, p) for i, p in self.units if self.lit.get(i, (0, True))[0] != 0]
            consts_bad = any(self.lit[i][0] == 0 and ((not self.lit[i][1]) != p) for i, p in self.units if i in self.lit)
            if dl.consistent(self.n, cs) and not consts_bad:
                self.fail("root-failure-on-consistent", "the network reported inconsistency at root level but the asserted constraints are consistent")
            self.feats.add("root-inconsistent")
            return
        # first observation
        self.check_hooks(idx)
        prev = tr.obs(idx)
        if not self.check_obs(prev, "after construction"):
            return
        idx += 1
        for h in case["hist"]:
            self.check_hooks(idx)
            self.check_hooks(idx + 1)
            r = tr.res(idx)
            o = tr.obs(idx + 1)
            idx += 2
            where = "after %s" % (h,)
            if h[0] == "assume":
                if r == "skip-assigned":
                    self.feats.add("skip-assigned")
                else:
                    l = self.lit[h[1]]
                    if l[0] != 0:
                        act_prev = self.active_from_val(prev["val"])
                        newc = self.con(h[1], h[2])
                        cons_ok = dl.consistent(self.n, act_prev + [newc])
                        if self.case.get("clauses") and self.z3:
                            z3 = self.z3m
                            decs = [self.zlit(s) for s in prev["dec"]] + [self.zlit_idx(h[1], h[2])]
                            self.zs.push()
                            self.zs.add([d for d in decs if d is not None])
                            zr = self.zs.check()
                            self.zs.pop()
                            self.stats["z3"] += 1
                            if zr == z3.unknown:
                                return
                            cons_ok = zr == z3.sat
                        refuted = (r is False) or o["lvl"] <= prev["lvl"]
                        if refuted:
                            self.feats.add("conflict")
                            if cons_ok:
                                self.fail("conflict-without-negative-cycle", "%s: the assumption was refuted although the constraints stay consistent" % where)
                        elif not cons_ok and not self.case.get("clauses"):
                            self.fail("negative-cycle-accepted", "%s: the assumption closes a negative cycle but was accepted" % where)
                            return
                        if r is False and o["lvl"] == 0 and self.case.get("clauses"):
                            return
                        if r is False and o["lvl"] == 0:
                            # root-level inconsistency discovered by backjumping to root: stop
                            if dl.consistent(self.n, [self.con(i, p) for i, p in self.units if self.lit[i][0] != 0] + []):
                                # learnt unit clauses are consequences; a false at root means the root units alone are inconsistent
                                self.fail("root-failure-on-consistent", "%s: inconsistency reported at root level but root constraints are consistent" % where)
                            return
            elif h[0] == "pop":
                if r is True:
                    self.feats.add("pop")
                    if len(prev["dec"]) >= 2:
                        self.feats.add("deep-pop")
            if not self.check_obs(o, where):
                return
            prev = o


def check_case(case, tr):
    ck = DLChecker(case, tr)
    ck.run()
    return ck.fails, ck.feats, ck.stats


def work(exe, start, n, pop_heavy, pid):
    if isinstance(exe, (list, tuple)):
        exe = exe[(start // max(n, 1)) % len(exe)]
    part = common.Partial()
    rnd = common.rng(pid, "dl", start)
    cases = [gen_case(rnd, start + i, pop_heavy=pop_heavy, big=(rnd.random() < 0.12)) for i in range(n)]
    traces = net.run_cases(exe, [net.program(c["id"], ops_of(c)) for c in cases])
    for case, tr in zip(cases, traces):
        fp = common.fingerprint([case["kind"], case["n"], [(f, t, str(w)) for f, t, w in case["cons"]], case["steps"], case["hist"]])
        if tr is None:
            part.inconc("no answer")
            continue
        if isinstance(tr, drv.Crash):
            part.inconc("timeout" if tr.timeout else "abort (owned by C18): " + tr.site())
            continue
        try:
            fails, feats, stats = check_case(case, tr)
        except (KeyError, IndexError) as ex:
            part.harness_errors.append("checker error on %s: %r" % (case["id"], ex))
            continue
        part.case(fp, "conflict" in feats or "pop" in feats, {"ops": ops_of(case)[:60]})
        for f in feats:
            part.count("feature:" + f)
        part.count("kind:" + case["kind"])
        part.count("family:" + case.get("family", "random"))
        part.count("build:" + ("rel" if "/rel-" in exe else "dbg"))
        if case["n"] >= 16:
            part.count("feature:matrix-resize")
        part.count("observations compared", stats["obs"])
        part.count("lemmas/learnt clauses validated", stats["lemmas"])
        part.count("theory conflicts validated", stats["tconf"])
        part.count("z3 entailment queries", stats["z3"])
        done = set()
        for f, d in fails:
            if f in done:
                continue
            done.add(f)
            part.violation("%s/%s" % (case["kind"], f), d, {"ops": ops_of(case), "detail": d, "driver": "net_drv"})
    return part.dump()


def run(tier, pid=PID, pop_heavy=False):
    res = common.Result(pid, tier, "a history = 3-7 (12%%: 16-20, crossing the initial matrix size) time points, 4-18 constraints 'to-from<=d' (repeated pairs, both "
                        "directions; integer for IDL, rational with +-eps for RDL) created at root with interleaved root-level assertions, then 5-24 "
                        "assume / assume-negated / pop / back-to-root steps; after every step the full distance matrix is compared with the exact all-pairs "
                        "closure of the constraints whose literal is assigned; conflicts are compared with negative-cycle existence; every learnt clause / "
                        "theory conflict seen through the hooks is validated; non-trivial = the history contained a conflict or a pop")
    exe = [build.driver("dbg", "net_drv"), build.driver("rel", "net_drv")]
    total = 6000 if tier == "quick" else 250000
    per = 50 if tier == "quick" else 200
    common.pmap(work, [(exe, s, per, pop_heavy, pid) for s in range(0, total, per)], res)
    res.gate("conflicts reached", res.counters.get("feature:conflict", 0) > 0)
    res.gate("matrix growth beyond 16 reached", res.counters.get("feature:matrix-resize", 0) > 0)
    res.gate("theory lemmas observed through the hook", res.counters.get("lemmas/learnt clauses validated", 0) > 0)
    res.gate("multi-level pops reached", res.counters.get("feature:deep-pop", 0) > 0)
    return res.finish()
