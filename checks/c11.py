"""C11 - an LRA relation literal means exactly its relation (fresh, shared or constant)."""
from vlib import build, common
from checks import lra

PID = "C11"


def run(tier):
    res = common.Result(PID, tier, "same workload family as C09 (requests l <rel> r with constants on both sides, cancelling variables, scaled / shifted / negated "
                        "copies of earlier expressions, requests issued after root-level tightening and pivots); constants TRUE/FALSE are judged by z3 "
                        "entailment against the root-level constraints, two requests sharing one literal must be equivalent (z3), and every decided request "
                        "literal must agree with its relation evaluated on every model the theory reports (eps-strict); non-trivial = a shortcut constant or a "
                        "shared literal or a conflict/pop occurred")
    res.assumptions = ["z3 is the reference for entailment between the linear relations the harness wrote itself"]
    exes = [build.driver("dbg", "net_drv"), build.driver("rel", "net_drv")]
    total = 4800 if tier == "quick" else 150000
    per = 50 if tier == "quick" else 200
    common.pmap(lra.work, [(exes, s + 100000, per, False, PID) for s in range(0, total, per)], res)
    res.gate("shortcut constants reached", res.counters.get("feature:shortcut-const", 0) > 0)
    res.gate("shared literals reached", res.counters.get("feature:shared-literal", 0) > 0)
    res.gate("models checked", res.counters.get("models checked", 0) > 100)
    return res.finish()
