"""C12 - difference-logic relation literals (new_lt/leq/eq/geq/gt) and expression queries (bounds/distance/equates)."""
from fractions import Fraction

from vlib import build, common, dl, drv, net

PID = "C12"
RELS = ["lt", "leq", "eq", "geq", "gt"]


def fr(x):
    return "%d/%d" % (x.numerator, x.denominator)


def lin_txt(terms, k):
    parts = ["k=" + fr(k)] if k != 0 or not terms else []
    parts += ["t%d=%s" % (v, fr(c)) for v, c in terms if c != 0]
    return ",".join(parts) if parts else "0"


def gen_case(rnd, idx):
    kind = rnd.choice(["idl", "rdl"])
    n = rnd.randint(3, 6)
    bounded = rnd.random() < 0.7
    # a random consistent root network (built around a planted integer solution)
    sol = [0] + [rnd.randint(0, 12) for _ in range(n - 1)]
    root = []
    if bounded:
        for v in range(1, n):
            root.append((0, v, Fraction(sol[v] + rnd.randint(0, 6))))      # v <= ub
            root.append((v, 0, Fraction(-sol[v] + rnd.randint(0, 6))))     # -v <= -lb
    for _ in range(rnd.randint(0, 5)):
        f, t = rnd.sample(range(n), 2)
        root.append((f, t, Fraction(sol[t] - sol[f] + rnd.randint(0, 5))))
    reqs = []
    for _ in range(rnd.randint(4, 10)):
        c = rnd.random()
        if c < 0.55:
            reqs.append(gen_rel(rnd, kind, n, sol))
        elif c < 0.75:
            reqs.append(gen_query(rnd, kind, n, "bounds"))
        elif c < 0.9:
            reqs.append(gen_query(rnd, kind, n, "distance"))
        else:
            reqs.append(gen_query(rnd, kind, n, "equates"))
    return {"id": "c12-%d" % idx, "kind": kind, "n": n, "root": root, "reqs": reqs}


def rand_c(rnd, kind):
    if kind == "idl":
        return Fraction(rnd.choice([1, 1, 1, -1, -1, 2, -2, 3, -3]))
    return Fraction(rnd.choice([1, 1, -1, -1, 2, -2, 3, -1]), rnd.choice([1, 1, 1, 2, 3]))


def rand_k(rnd, kind, c, around):
    """a known term such that -k/c is close to `around` (the planted value of x - y), sometimes non-integer"""
    m = Fraction(around + rnd.randint(-4, 4))
    if kind == "rdl" and rnd.random() < 0.4:
        m += Fraction(rnd.randint(1, 3), rnd.choice([2, 3, 4]))
    if kind == "idl" and rnd.random() < 0.07:
        m += Fraction(1, 2)
    return -m * c


def gen_rel(rnd, kind, n, sol):
    two = rnd.random() < 0.6
    x = rnd.randrange(1, n)
    y = rnd.choice([v for v in range(1, n) if v != x]) if two and n > 2 else 0
    c = rand_c(rnd, kind)
    k = rand_k(rnd, kind, c, sol[x] - (sol[y] if y else 0))
    rel = rnd.choice(RELS)
    # distribute c*(x - y) + k  <rel> 0 over the two sides
    left_terms, right_terms = [], []
    k1 = Fraction(rnd.randint(-3, 3)) if rnd.random() < 0.5 else Fraction(0)
    lk, rk = k + k1, k1
    shape = rnd.random()
    if y == 0:
        if shape < 0.5:
            left_terms = [(x, c)]
        else:
            right_terms = [(x, -c)]
    else:
        if shape < 0.4:
            left_terms, right_terms = [(x, c)], [(y, c)]
        elif shape < 0.7:
            left_terms = [(x, c), (y, -c)]
        else:
            right_terms = [(y, c), (x, -c)]
    if rnd.random() < 0.15 and n > 3:     # a cancelling third variable on both sides
        z = rnd.choice([v for v in range(1, n) if v not in (x, y)])
        d = rand_c(rnd, kind)
        left_terms = left_terms + [(z, d)]
        right_terms = right_terms + [(z, d)]
    valid = True
    if rnd.random() < 0.06 and y != 0:    # deliberately not a difference constraint
        left_terms = [(x, c), (y, c)]
        right_terms = []
        valid = False
    return {"t": "rel", "rel": rel, "x": x, "y": y, "c": c, "k": k, "l": lin_txt(left_terms, lk), "r": lin_txt(right_terms, rk), "valid": valid}


def gen_query(rnd, kind, n, q):
    c = rand_c(rnd, kind)
    k = Fraction(rnd.randint(-5, 5))
    if kind == "rdl" and rnd.random() < 0.3:
        k += Fraction(1, 2)
    x = rnd.randrange(1, n)
    y = rnd.choice([v for v in range(1, n) if v != x]) if rnd.random() < 0.5 and n > 2 else 0
    if q == "bounds":
        terms = [(x, c)] + ([(y, -c)] if y else [])
        if rnd.random() < 0.1:
            terms = []
        return {"t": "bounds", "x": x, "y": y, "c": c, "k": k, "l": lin_txt(terms, k), "terms": bool(terms)}
    if q == "distance":
        # distance(from, to) = bounds(to - from); forms: var/var, var/const, const/var, const/const, with constants on both sides
        kf, kt = Fraction(rnd.randint(-3, 3)), Fraction(rnd.randint(-3, 3))
        shape = rnd.random()
        if shape < 0.5 and y:
            fl, tl = lin_txt([(y, Fraction(1))], kf), lin_txt([(x, Fraction(1))], kt)      # to - from = x - y + kt - kf
            exp = ("diff", x, y, kt - kf)
        elif shape < 0.7:
            fl, tl = lin_txt([], kf), lin_txt([(x, Fraction(1))], kt)
            exp = ("diff", x, 0, kt - kf)
        elif shape < 0.9:
            fl, tl = lin_txt([(x, Fraction(1))], kf), lin_txt([], kt)
            exp = ("diff", 0, x, kt - kf)
        else:
            fl, tl = lin_txt([], kf), lin_txt([], kt)
            exp = ("const", kt - kf)
        return {"t": "distance", "from": fl, "to": tl, "exp": exp}
    # equates
    k0, k1 = Fraction(rnd.randint(-4, 8)), Fraction(rnd.randint(-4, 8))
    shape = rnd.random()
    if shape < 0.4 and y:
        return {"t": "equates", "l0": lin_txt([(x, Fraction(1))], k0), "l1": lin_txt([(y, Fraction(1))], k1), "exp": ("diff", x, y, k1 - k0)}   # x + k0 = y + k1  <=> x - y = k1 - k0
    if shape < 0.7:
        return {"t": "equates", "l0": lin_txt([(x, c)], k0), "l1": lin_txt([], k1), "exp": ("scaled", x, c, k1 - k0)}    # c*x = k1 - k0
    if shape < 0.9:
        return {"t": "equates", "l0": lin_txt([], k0), "l1": lin_txt([(x, c)], k1), "exp": ("scaled", x, c, k0 - k1)}
    return {"t": "equates", "l0": lin_txt([], k0), "l1": lin_txt([], k1), "exp": ("const", k0 == k1)}


def ops_of(case):
    k = case["kind"]
    ops = ["%s var t%d" % (k, i) for i in range(1, case["n"])]
    for i, (f, t, w) in enumerate(case["root"]):
        ws = str(int(w)) if k == "idl" else fr(w)
        ops.append("%s dist g%d t%d t%d %s" % (k, i, f, t, ws))
        ops.append("clause g%d" % i)
        if i % 3 == 2:
            ops.append("propagate")
    ops.append("propagate")
    ops.append("obs")
    for j, q in enumerate(case["reqs"]):
        if q["t"] == "rel":
            ops.append("%s rel p%d %s %s %s" % (k, j, q["rel"], q["l"], q["r"]))
            ops += ["assume p%d" % j, "obs", "root", "assume !p%d" % j, "obs", "root", "obs"]
        elif q["t"] == "bounds":
            ops.append("%s bounds %s" % (k, q["l"]))
        elif q["t"] == "distance":
            ops.append("%s distance %s %s" % (k, q["from"], q["to"]))
        else:
            ops.append("%s equates %s %s" % (k, q["l0"], q["l1"]))
    return ops


def rel_constraints(kind, q):
    """the difference constraints equivalent to c*(x-y)+k <rel> 0, or None when not expressible (IDL, non-integer bound)"""
    c, k, x, y = q["c"], q["k"], q["x"], q["y"]
    m = -k / c
    rel = q["rel"]
    if c < 0:
        rel = {"lt": "gt", "leq": "geq", "eq": "eq", "geq": "leq", "gt": "lt"}[rel]
    if kind == "idl" and m.denominator != 1:
        return None
    Z = Fraction(0)

    def le(strict):   # x - y <= m  /  < m
        if strict:
            return (y, x, (m - 1, Z)) if kind == "idl" else (y, x, (m, Fraction(-1)))
        return (y, x, (m, Z))

    def ge(strict):   # x - y >= m  /  > m   <=>  y - x <= -m
        if strict:
            return (x, y, (-m - 1, Z)) if kind == "idl" else (x, y, (-m, Fraction(-1)))
        return (x, y, (-m, Z))
    if rel == "lt":
        return [le(True)]
    if rel == "leq":
        return [le(False)]
    if rel == "geq":
        return [ge(False)]
    if rel == "gt":
        return [ge(True)]
    return [le(False), ge(False)]


def entailed(D, con):
    f, t, w = con
    return D[f][t] is not None and dl.w_le(D[f][t], w)


class Checker:
    def __init__(self, case, tr):
        self.case, self.tr = case, tr
        self.kind, self.n = case["kind"], case["n"]
        self.fails, self.feats = [], set()
        self.by_var = {}
        self.nobs = 0

    def fail(self, key, detail):
        self.fails.append((key, detail))

    def hooks(self, idx):
        for h in self.tr.hooks(idx, "dist"):
            self.by_var[h["b"]] = (h["from"], h["to"], dl.parse_w(h["d"], "rdl"))

    def active(self, val):
        act = []
        for v, (f, t, w) in self.by_var.items():
            c = val[v]
            if c == "1":
                act.append((f, t, w))
            elif c == "0":
                act.append(dl.negate(self.kind, f, t, w))
        return act

    def matrix(self, o):
        return [[dl.parse_w(x, self.kind) for x in row] for row in o[self.kind]]

    def run(self):
        tr, case, kind = self.tr, self.case, self.kind
        idx = 1 + (self.n - 1)
        for i in range(len(case["root"])):
            self.hooks(idx)
            idx += 1       # dist
            if tr.res(idx) is False:
                self.fail("harness", "planted-consistent root constraint rejected")
                return
            idx += 1       # clause
            if i % 3 == 2:
                if tr.res(idx) is False:
                    self.fail("root-failure-on-consistent", "propagate() failed on a network with a planted solution")
                    return
                idx += 1
        if tr.res(idx) is False:
            self.fail("root-failure-on-consistent", "propagate() failed on a network with a planted solution")
            return
        idx += 1
        o = tr.obs(idx)
        idx += 1
        rootD, ok = dl.closure(self.n, self.active(o["val"]))
        if not ok or self.matrix(o) != rootD:
            self.fail("c10-owned", "root matrix differs from the closure (reported under C10)")
            return
        for j, q in enumerate(case["reqs"]):
            self.hooks(idx)
            r = tr.res(idx)
            if q["t"] == "rel":
                rootD = self.check_rel(j, q, r, idx, rootD)
                idx += 8
                if rootD is None:
                    return
            elif q["t"] == "bounds":
                self.check_bounds(q, r, rootD)
                idx += 1
            elif q["t"] == "distance":
                self.check_distance(q, r, rootD)
                idx += 1
            else:
                self.check_equates(q, r, rootD)
                idx += 1

    # ---- relation literals
    def describe(self, q):
        arity = "2var" if q["y"] else "1var"
        return "new_%s/%s/%s/%s" % (q["rel"], arity, "c<0" if q["c"] < 0 else "c>0", "|c|=1" if abs(q["c"]) == 1 else "|c|!=1")

    def check_rel(self, j, q, r, idx, rootD):
        tr, kind = self.tr, self.kind
        what = self.describe(q)
        cons = rel_constraints(kind, q) if q["valid"] else None
        text = "%s %s %s" % (q["l"], q["rel"], q["r"])
        o_end = tr.obs(idx + 7)
        if r == "invalid_argument":
            self.feats.add("rejected")
            if cons is not None:
                self.fail(what + "/valid-request-rejected", "request '%s' is a difference constraint but was rejected with invalid_argument" % text)
            return rootD
        if cons is None:
            self.feats.add("not-expressible-accepted")
            if q["valid"]:
                # IDL with a non-integer bound: documented rejection expected; an accepted request cannot be judged exactly
                pass
            return self.reroot(o_end)
        p = net.plit(r)
        ent = all(entailed(rootD, c) for c in cons)
        ref = any(entailed(rootD, dl.negate(kind, *c)) for c in cons)
        if p[0] == 0:
            self.feats.add("constant")
            val = not p[1]
            if val and not ent:
                self.fail(what + "/unjustified-true", "request '%s' returned TRUE but the current distances do not entail it (x=t%d y=t%d, x-y in [%s, %s])" % (
                    text, q["x"], q["y"], dl.fmt_w(dl.w_neg(rootD[q["x"]][q["y"]])) if rootD[q["x"]][q["y"]] else "-inf", dl.fmt_w(rootD[q["y"]][q["x"]])))
            if not val and not ref:
                self.fail(what + "/unjustified-false", "request '%s' returned FALSE but the current distances do not refute it (x=t%d y=t%d, x-y in [%s, %s])" % (
                    text, q["x"], q["y"], dl.fmt_w(dl.w_neg(rootD[q["x"]][q["y"]])) if rootD[q["x"]][q["y"]] else "-inf", dl.fmt_w(rootD[q["y"]][q["x"]])))
            return rootD
        self.feats.add("literal")
        base = self.active(tr.obs(idx + 7)["val"]) if False else None
        root_act = self.root_act
        # assume p
        ra, oa = tr.res(idx + 1), tr.obs(idx + 2)
        if ra == "skip-unknown":
            return self.reroot(o_end)
        if ra != "skip-assigned":
            expD, ok = dl.closure(self.n, root_act + cons)
            accepted = ra is True and oa["lvl"] == 1
            if accepted and not ok:
                self.fail(what + "/true-accepted-but-inconsistent", "assuming the literal of '%s' was accepted although the relation contradicts the network" % text)
            elif not accepted and ok:
                self.fail(what + "/true-refuted-but-consistent", "assuming the literal of '%s' was refuted although the relation is consistent with the network" % text)
            elif accepted:
                self.nobs += 1
                if self.matrix(oa) != expD:
                    self.fail(what + "/true-wrong-meaning", "after assuming the literal of '%s' the distances are not those of 'network + relation' (expected e.g. row %s, got %s)" % (
                        text, dl.fmt_m(expD)[q["y"]], dl.fmt_m(self.matrix(oa))[q["y"]]))
        else:
            self.feats.add("literal-already-assigned")
        # assume !p
        rn, on = tr.res(idx + 4), tr.obs(idx + 5)
        if rn != "skip-assigned":
            accepted = rn is True and on["lvl"] == 1
            if q["rel"] != "eq":
                ncons = [dl.negate(kind, *cons[0])]
                expD, ok = dl.closure(self.n, root_act + ncons)
                if accepted and not ok:
                    self.fail(what + "/false-accepted-but-inconsistent", "assuming the negated literal of '%s' was accepted although the negated relation contradicts the network" % text)
                elif not accepted and ok:
                    self.fail(what + "/false-refuted-but-consistent", "assuming the negated literal of '%s' was refuted although the negated relation is consistent with the network" % text)
                elif accepted:
                    self.nobs += 1
                    if self.matrix(on) != expD:
                        self.fail(what + "/false-wrong-meaning", "after assuming the negated literal of '%s' the distances are not those of 'network + negated relation' (expected row %s, got %s)" % (
                            text, dl.fmt_m(expD)[q["x"]], dl.fmt_m(self.matrix(on))[q["x"]]))
            else:
                b1, ok1 = dl.closure(self.n, root_act + [dl.negate(kind, *cons[0])])
                b2, ok2 = dl.closure(self.n, root_act + [dl.negate(kind, *cons[1])])
                if accepted and not ok1 and not ok2:
                    self.fail(what + "/false-accepted-but-inconsistent", "negated equality '%s' accepted although the network forces the equality" % text)
                elif not accepted and (ok1 or ok2):
                    self.fail(what + "/false-refuted-but-consistent", "negated equality '%s' refuted although the network allows a different value" % text)
                elif accepted:
                    M = self.matrix(on)
                    for B, okb in ((b1, ok1), (b2, ok2)):
                        if okb and any(dl.w_lt(M[i][k], B[i][k]) for i in range(self.n) for k in range(self.n)):
                            self.fail(what + "/false-wrong-meaning", "after assuming the negated equality '%s' the distances exclude solutions of 'network + (x-y != m)'" % text)
                            break
        return self.reroot(o_end)

    def reroot(self, o):
        act = self.active(o["val"])
        D, ok = dl.closure(self.n, act)
        if not ok:
            return None
        if self.matrix(o) != D:
            self.fail("c10-owned", "root matrix differs from closure (reported under C10)")
            return None
        self.root_act = act
        return D

    # ---- queries
    def interval(self, D, x, y):
        """bounds of t_x - t_y as (lo, hi) weights (None = infinite)"""
        hi = D[y][x]
        lo = dl.w_neg(D[x][y]) if D[x][y] is not None else None
        return lo, hi

    def parse_pair(self, r):
        if self.kind == "idl":
            big = (1 << 61)
            return [None if abs(v) >= big // 2 else (Fraction(v), Fraction(0)) for v in r]
        out = []
        for s in r:
            w = dl.parse_w(s, "rdl")
            out.append(None if w is None or w == "neginf" else w)
        return out

    def scale(self, lo, hi, c, k):
        def sc(w):
            return None if w is None else (w[0] * c + k, w[1] * c)
        a, b = sc(lo), sc(hi)
        return (a, b) if c > 0 else (b, a)

    def check_bounds(self, q, r, D):
        what = "bounds(lin)/%s/%s" % ("2var" if q["y"] else "1var", ("c<0" if q["c"] < 0 else "c>0") if q["terms"] else "const")
        if r == "invalid_argument":
            if self.kind == "rdl" or (q["c"].denominator == 1 and q["k"].denominator == 1):
                self.fail(what + "/valid-rejected", "bounds(%s) rejected with invalid_argument" % q["l"])
            self.feats.add("query-rejected")
            return
        got = self.parse_pair(r)
        if not q["terms"]:
            exp = ((q["k"], Fraction(0)), (q["k"], Fraction(0)))
        else:
            lo, hi = self.interval(D, q["x"], q["y"])
            exp = self.scale(lo, hi, q["c"], q["k"])
        self.feats.add("bounds")
        if (lo_hi_none(exp) or True) and tuple(got) != tuple(exp):
            if self.kind == "idl" and (exp[0] is None or exp[1] is None) and abs(q["c"]) != 1:
                return     # IDL uses a finite sentinel for infinity: scaled sentinels are not judged
            self.fail(what + "/wrong", "bounds(%s) = [%s, %s], the distances give [%s, %s]" % (q["l"], dl.fmt_w(got[0]), dl.fmt_w(got[1]), dl.fmt_w(exp[0]), dl.fmt_w(exp[1])))

    def check_distance(self, q, r, D):
        exp_kind = q["exp"][0]
        what = "distance(lin,lin)/" + ("const" if exp_kind == "const" else ("var-var" if q["exp"][1] and q["exp"][2] else "var-const"))
        if r == "invalid_argument":
            self.feats.add("query-rejected")
            self.fail(what + "/valid-rejected", "distance(%s, %s) rejected" % (q["from"], q["to"]))
            return
        got = self.parse_pair(r)
        if exp_kind == "const":
            exp = ((q["exp"][1], Fraction(0)),) * 2
        else:
            _, x, y, k = q["exp"]
            lo, hi = self.interval(D, x, y)
            exp = self.scale(lo, hi, Fraction(1), k)
        self.feats.add("distance")
        if tuple(got) != tuple(exp):
            self.fail(what + "/wrong", "distance(from=%s, to=%s) = [%s, %s], but to-from ranges over [%s, %s]" % (q["from"], q["to"], dl.fmt_w(got[0]), dl.fmt_w(got[1]), dl.fmt_w(exp[0]), dl.fmt_w(exp[1])))

    def check_equates(self, q, r, D):
        e = q["exp"]
        what = "equates(lin,lin)/" + e[0]
        if r == "invalid_argument":
            self.feats.add("query-rejected")
            self.fail(what + "/valid-rejected", "equates(%s, %s) rejected" % (q["l0"], q["l1"]))
            return
        self.feats.add("equates")
        if e[0] == "const":
            exp = e[1]
        elif e[0] == "diff":
            lo, hi = self.interval(D, e[1], e[2])
            m = (e[3], Fraction(0))
            exp = dl.w_le(lo, m) if lo is not None else True
            exp = exp and (hi is None or dl.w_le(m, hi))
        else:
            _, x, c, rhs = e
            lo, hi = self.interval(D, x, 0)
            if self.kind == "idl" and (lo is None or hi is None) and abs(c) != 1:
                return     # IDL uses a finite sentinel for infinity: scaled sentinels are not judged
            a, b = self.scale(lo, hi, c, Fraction(0))
            m = (rhs, Fraction(0))
            exp = (a is None or dl.w_le(a, m)) and (b is None or dl.w_le(m, b))
        if r != exp:
            self.fail(what + "/wrong", "equates(%s, %s) = %s but the distances %s the equality" % (q["l0"], q["l1"], r, "allow" if exp else "exclude"))


def lo_hi_none(e):
    return e[0] is None or e[1] is None


def check_case(case, tr):
    ck = Checker(case, tr)
    ck.root_act = None
    # root_act is set by the first reroot-equivalent: compute from the first observation
    n = case["n"]
    first_obs_idx = None
    for i in sorted(tr.rets):
        if tr.obs(i) is not None:
            first_obs_idx = i
            break
    # hooks up to there
    for i in sorted(tr.rets):
        if i > first_obs_idx:
            break
        ck.hooks(i)
    ck.root_act = ck.active(tr.obs(first_obs_idx)["val"])
    ck.run()
    return ck.fails, ck.feats, ck.nobs


def work(exes, start, n):
    part = common.Partial()
    exe = exes[(start // max(n, 1)) % len(exes)]
    rnd = common.rng(PID, start)
    cases = [gen_case(rnd, start + i) for i in range(n)]
    traces = net.run_cases(exe, [net.program(c["id"], ops_of(c)) for c in cases])
    for case, tr in zip(cases, traces):
        fp = common.fingerprint([case["kind"], case["n"], [str(x) for x in case["root"]], [sorted((k, str(v)) for k, v in q.items()) for q in case["reqs"]]])
        if tr is None:
            part.inconc("no answer")
            continue
        if isinstance(tr, drv.Crash):
            part.inconc("timeout" if tr.timeout else "abort (owned by C18): " + tr.site())
            continue
        try:
            fails, feats, nobs = check_case(case, tr)
        except (KeyError, IndexError, TypeError) as ex:
            import traceback
            part.harness_errors.append("checker error on %s: %s" % (case["id"], traceback.format_exc()[-600:]))
            continue
        part.case(fp, "literal" in feats or "constant" in feats, {"ops": ops_of(case)[:50]})
        for f in feats:
            part.count("feature:" + f)
        part.count("kind:" + case["kind"])
        part.count("matrices compared", nobs)
        for q in case["reqs"]:
            part.count("request:" + q["t"] + (":" + q["rel"] if q["t"] == "rel" else ""))
        done = set()
        for f, d in fails:
            if f in done or f == "c10-owned":
                continue
            done.add(f)
            part.violation("%s/%s" % (case["kind"], f), d, {"ops": ops_of(case), "detail": d, "driver": "net_drv"})
    return part.dump()


def run(tier):
    res = common.Result(PID, tier, "a case = a consistent root network over 3-6 time points (70%% with finite bounds) and 4-10 requests: relation literals "
                        "c*(x-y)+k <rel> 0 and c*x+k <rel> 0 in all five relations, both signs and several magnitudes of c, terms distributed over both sides, "
                        "cancelling variables, integer/rational k, IDL and RDL; constants are judged against the exact closure, non-constant literals by "
                        "assuming them (and their negation) and comparing the whole distance matrix with closure(network + relation); queries "
                        "bounds/distance/equates compared with the intervals the closure gives; non-trivial = a relation request produced a literal or constant")
    res.assumptions = ["IDL requests whose normalised bound is not an integer may be rejected with invalid_argument (reported error, not judged)",
                       "equates between two variables is only exercised with unit coefficients (other forms are not difference relations)"]
    exes = [build.driver("dbg", "net_drv"), build.driver("rel", "net_drv")]
    total = 6000 if tier == "quick" else 250000
    per = 50 if tier == "quick" else 200
    common.pmap(work, [(exes, s, per) for s in range(0, total, per)], res)
    for r in RELS:
        res.gate("relation %s requested" % r, res.counters.get("request:rel:" + r, 0) > 0)
    res.gate("non-constant literals judged by assumption", res.counters.get("matrices compared", 0) > 0)
    return res.finish()
