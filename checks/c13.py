"""C13 - reified boolean constructs vs their truth tables, by exhaustive model enumeration through the public API."""
import itertools

from vlib import build, common, drv, net

PID = "C13"
DEF = ("eq", "conj", "disj")
HALF = ("amo", "exct")


# ------------------------------------------------------------------------------------------------
def gen_case(rnd, idx):
    nb = rnd.randint(1, 6)
    base = ["v%d" % i for i in range(nb)]
    case = {"id": "c13-%d" % idx, "base": base, "clauses": [], "propagate": False, "constructs": []}
    # root-level pre-assignments and a few clauses
    for v in base:
        if rnd.random() < 0.22:
            case["clauses"].append([v if rnd.random() < 0.5 else "!" + v])
    for _ in range(rnd.choice([0, 0, 0, 1, 2])):
        k = rnd.randint(2, 3)
        case["clauses"].append([rnd.choice(base) if rnd.random() < 0.5 else "!" + rnd.choice(base) for _ in range(k)])
    if not before_set(case):
        case["clauses"] = []
    case["propagate"] = rnd.random() < 0.5
    pool = list(base)
    big_used = False
    ncon = rnd.randint(1, 4)
    for j in range(ncon):
        kind = rnd.choice(["eq", "conj", "disj", "amo", "exct", "amo", "exct"])

        def arg():
            n = rnd.choice(pool) if rnd.random() > 0.04 else rnd.choice(["T", "F"])
            if n in ("T", "F"):
                return n
            return n if rnd.random() < 0.6 else "!" + n
        if kind == "eq":
            args = [arg(), arg()]
        else:
            n = rnd.choice([0, 1, 2, 2, 3, 3, 4, 5, 6, 7, 9])
            if n >= 4:
                if big_used:
                    n = rnd.randint(1, 3)
                else:
                    big_used = True
            args = [arg() for _ in range(n)]
            if args and rnd.random() < 0.25:   # force a duplicate or a complementary pair
                a = rnd.choice(args)
                if a not in ("T", "F"):
                    args.insert(rnd.randrange(len(args) + 1), a if rnd.random() < 0.5 else (a[1:] if a.startswith("!") else "!" + a))
        name = "r%d" % j
        case["constructs"].append({"kind": kind, "name": name, "args": args})
        if kind in DEF:
            pool.append(name)
        # request the same expression again (permuted) or its sibling kind to exercise the cache
        c = rnd.random()
        if c < 0.2 and len(args) > 1:
            a2 = list(args)
            rnd.shuffle(a2)
            case["constructs"].append({"kind": kind, "name": name + "b", "args": a2})
        elif c < 0.35 and kind in HALF:
            other = "exct" if kind == "amo" else "amo"
            case["constructs"].append({"kind": other, "name": name + "s", "args": list(args)})
    return case


def ops_of(case):
    ops = ["bvar %s" % v for v in case["base"]]
    for cl in case["clauses"]:
        ops.append("clause " + " ".join(cl))
    if case["propagate"]:
        ops.append("propagate")
    for c in case["constructs"]:
        ops.append("%s %s %s" % (c["kind"], c["name"], " ".join(c["args"])))
    ops.append("enum 120000")
    return ops


# ------------------------------------------------------------------------------------------------
# reference semantics
def ev_lit(name, env):
    if name == "T":
        return True
    if name == "F":
        return False
    if name.startswith("!"):
        return not env[name[1:]]
    return env[name]


def before_set(case):
    res = []
    for bits in itertools.product([False, True], repeat=len(case["base"])):
        env = dict(zip(case["base"], bits))
        if all(any(ev_lit(l, env) for l in cl) for cl in case["clauses"]):
            res.append(bits)
    return res


def formula(kind, vals):
    if kind == "eq":
        return vals[0] == vals[1]
    if kind == "conj":
        return all(vals)
    if kind == "disj":
        return any(vals)
    raise KeyError(kind)


def card(kind, args, env, strict, ident=None):
    """strict: multiset reading (every occurrence counts); lenient: distinct literals count once
    (ident maps an argument to the library's own literal, so that two names of one literal are one literal)"""
    if strict:
        n = sum(1 for a in args if ev_lit(a, env))
    else:
        n = len({(ident(a) if ident else a) for a in args if ev_lit(a, env)})
    return n <= 1 if kind == "amo" else n == 1


def check_case(case, tr):
    """returns list of (failure, construct, detail); also features"""
    names = {}
    idx = 1
    feats = set()
    call_of = {}
    for v in case["base"]:
        names[v] = net.plit(tr.res(idx))
        idx += 1
    for cl in case["clauses"]:
        if tr.res(idx) is not True:
            return [("harness", None, "base clause rejected")], feats
        idx += 1
    if case["propagate"]:
        if tr.res(idx) is not True:
            return [("harness", None, "propagate failed on satisfiable base")], feats
        idx += 1
    seen_results = {}
    for c in case["constructs"]:
        r = net.plit(tr.res(idx))
        names[c["name"]] = r
        call_of[c["name"]] = idx
        ncl = len(tr.hooks(idx, "clause"))
        c["_clauses"] = ncl
        c["_res"] = tr.res(idx)
        if r[0] == 0:
            feats.add("shortcut-const")
        elif ncl == 0 and r in seen_results.values():
            feats.add("cache-or-shared")
        elif ncl == 0:
            feats.add("shortcut-lit")
        else:
            feats.add("created")
        if c["kind"] in HALF and ncl >= 6 and len(c["args"]) >= 4:
            feats.add("maybe-product")
        seen_results[c["name"]] = r
        idx += 1
    en = tr.res(idx)
    if en.get("root_conflict"):
        return [("root-conflict", None, "network inconsistent at root after constructing on a satisfiable base")], feats
    if en["trunc"]:
        return [("trunc", None, "")], feats
    top = en["top"]
    models = en["models"]

    def mval(M, lit):
        v, s = lit
        if v == 0:
            return not s   # b0 is the false constant
        return (M[v - 1] == "1") == s

    def ident(a):
        if a in ("T", "F"):
            return (0, a == "F")
        neg = a.startswith("!")
        v, sg = names[a.lstrip("!")]
        return (v, sg != neg)

    fails = []
    proj_all = set()
    proj_r = {c["name"]: set() for c in case["constructs"]}
    base_ids = [names[v] for v in case["base"]]
    for M in models:
        env = {n: mval(M, l) for n, l in names.items()}
        beta = tuple(env[v] for v in case["base"])
        proj_all.add(beta)
        for c in case["constructs"]:
            r = env[c["name"]]
            if r:
                proj_r[c["name"]].add(beta)
            if c["kind"] in DEF:
                f = formula(c["kind"], [ev_lit(a, env) for a in c["args"]])
                if r != f:
                    fails.append(("soundness", c, "accepted model has %s=%s but the formula evaluates to %s (model %s)" % (c["name"], r, f, M)))
            else:
                if r and not card(c["kind"], c["args"], env, strict=False, ident=ident):
                    fails.append(("soundness", c, "accepted model has %s true but the cardinality constraint is violated (model %s)" % (c["name"], M)))
    before = before_set(case)
    has_half = any(c["kind"] in HALF for c in case["constructs"])
    # reference values of definitional constructs as functions of the base assignment
    for beta in before:
        env = dict(zip(case["base"], beta))
        ok_all = True
        for c in case["constructs"]:
            if c["kind"] in DEF:
                env[c["name"]] = formula(c["kind"], [ev_lit(a, env) for a in c["args"]])
            else:
                sat = card(c["kind"], c["args"], env, strict=True)
                ok_all = ok_all and sat
                if sat and beta not in proj_r[c["name"]]:
                    fails.append(("completeness", c, "base assignment %s satisfies the constraint but no accepted model has %s true" % (dict(zip(case["base"], beta)), c["name"])))
        if not has_half and beta not in proj_all:
            fails.append(("completeness", None, "base assignment %s was a model before the constructions and has no accepted extension after them" % (dict(zip(case["base"], beta)),)))
    for beta in proj_all:
        if beta not in set(before):
            fails.append(("soundness", None, "accepted model violates a base clause: %s" % (beta,)))
    return fails, feats


def describe(case, c):
    """stable description of the failing construct for the finding key"""
    if c is None:
        return "network"
    tags = []
    args = c["args"]
    units = {}
    for cl in case["clauses"]:
        if len(cl) == 1:
            units[cl[0].lstrip("!")] = not cl[0].startswith("!")
    st = set()
    for a in args:
        if a in ("T", "F"):
            st.add("const-arg")
            continue
        n = a.lstrip("!")
        if n in units:
            val = units[n] == (not a.startswith("!"))
            st.add("arg-true-at-root" if val else "arg-false-at-root")
        if n.startswith("r"):
            st.add("nested-arg")
    stripped = [a.lstrip("!") for a in args]
    if len(set(args)) < len(args):
        st.add("duplicate-arg")
    if len(set(stripped)) < len(set(args)):
        st.add("complementary-args")
    if c["kind"] in HALF:
        st.add("n>=4" if len(set(args)) >= 4 else "n<4")
    sib = [o for o in case["constructs"] if o is not c and sorted(o["args"]) == sorted(args)]
    for o in sib:
        st.add("same-args-as-" + o["kind"])
    if c.get("_res") in ("b0", "!b0"):
        st.add("returned-constant")
    return "new_%s[%s]" % ({"amo": "at_most_one", "exct": "exct_one"}.get(c["kind"], c["kind"]), ",".join(sorted(st)))


# ------------------------------------------------------------------------------------------------
def minimise(exe, case, failure, ckind, budget=40):
    """greedy reduction: drop constructs / clauses / args while the same (failure, kind) persists"""
    def still(cs):
        tr = net.run_cases(exe, [net.program(cs["id"], ops_of(cs))])[0]
        if not isinstance(tr, net.Trace):
            return False
        fails, _ = check_case(cs, tr)
        return any(f == failure and ((c is None and ckind is None) or (c is not None and c["kind"] == ckind)) for f, c, d in fails)

    import copy
    cur = copy.deepcopy(case)
    runs = 0
    changed = True
    while changed and runs < budget:
        changed = False
        cands = []
        for i in range(len(cur["constructs"])):
            used = any(cur["constructs"][i]["name"] in [a.lstrip("!") for a in o["args"]] for o in cur["constructs"])
            if not used:
                c2 = copy.deepcopy(cur)
                del c2["constructs"][i]
                cands.append(c2)
        for i in range(len(cur["clauses"])):
            c2 = copy.deepcopy(cur)
            del c2["clauses"][i]
            cands.append(c2)
        for i, c in enumerate(cur["constructs"]):
            if c["kind"] != "eq":
                for k in range(len(c["args"])):
                    c2 = copy.deepcopy(cur)
                    del c2["constructs"][i]["args"][k]
                    cands.append(c2)
        if cur["propagate"]:
            c2 = copy.deepcopy(cur)
            c2["propagate"] = False
            cands.append(c2)
        for c2 in cands:
            if runs >= budget:
                break
            runs += 1
            if c2["constructs"] and still(c2):
                cur = c2
                changed = True
                break
    return cur


def work(exe, start, n, seed_salt):
    part = common.Partial()
    rnd = common.rng(PID, seed_salt, start)
    cases = [gen_case(rnd, start + i) for i in range(n)]
    traces = net.run_cases(exe, [net.program(c["id"], ops_of(c)) for c in cases])
    for case, tr in zip(cases, traces):
        fp = common.fingerprint([case["clauses"], case["propagate"], [(c["kind"], c["args"]) for c in case["constructs"]]])
        sample = {"ops": ops_of(case)}
        if tr is None:
            part.inconc("no answer")
            continue
        if isinstance(tr, drv.Crash):
            if tr.timeout:
                part.inconc("timeout")
            else:
                part.inconc("abort (owned by C18): " + tr.site())
                part.count("aborts seen (reported under C18)")
            continue
        fails, feats = check_case(case, tr)
        if any(f == "trunc" for f, c, d in fails):
            part.inconc("model enumeration truncated")
            continue
        if any(f == "harness" for f, c, d in fails):
            part.harness_errors.append("case %s: %s" % (case["id"], fails[0][2]))
            continue
        nontriv = "created" in feats or "cache-or-shared" in feats
        part.case(fp, nontriv, sample)
        for f in feats:
            part.count("feature:" + f)
        for c in case["constructs"]:
            part.count("construct:" + c["kind"])
        done = set()
        for failure, c, detail in fails:
            sig = (failure, c["kind"] if c else None)
            if sig in done:
                continue
            done.add(sig)
            small = minimise(exe, case, failure, c["kind"] if c else None)
            tr2 = net.run_cases(exe, [net.program(small["id"], ops_of(small))])[0]
            f2, _ = check_case(small, tr2)
            pick = [(ff, cc, dd) for ff, cc, dd in f2 if ff == failure and ((cc is None) == (c is None)) and (cc is None or cc["kind"] == c["kind"])]
            ff, cc, dd = pick[0] if pick else (failure, c, detail)
            key = "%s/%s" % (describe(small if pick else case, cc), ff)
            part.violation(key, "%s: %s" % (key, dd), {"ops": ops_of(small if pick else case), "detail": dd, "original_ops": ops_of(case), "driver": "net_drv"})
    return part.dump()


def run(tier):
    res = common.Result(PID, tier, "an instance = 1-6 base variables, optional root-level unit/short clauses, 1-6 reified constructs (eq/conj/disj/at-most-one/"
                        "exactly-one; random signs, duplicates, complementary pairs, constants, nesting, repeated requests), then ALL models of the network are "
                        "enumerated through sat_core::check and compared with the truth table; distinct = distinct instance; non-trivial = at least one "
                        "construct created clauses or was answered from the expression cache")
    res.assumptions = ["model enumeration uses sat_core::check(prefix) (public API); a total assignment is accepted iff check returns true",
                       "duplicates in cardinality constructs: soundness judged under the lenient (set) reading, completeness under the strict (multiset) reading"]
    exe = build.driver("dbg", "net_drv")
    total = 2400 if tier == "quick" else 40000
    per = 50 if tier == "quick" else 250
    args = [(exe, s, per, "main") for s in range(0, total, per)]
    common.pmap(work, args, res)
    res.gate("product encoding (>=4 arguments) reached", res.counters.get("feature:maybe-product", 0) > 0)
    res.gate("expression cache / sharing reached", res.counters.get("feature:cache-or-shared", 0) > 0)
    res.gate("shortcuts reached", res.counters.get("feature:shortcut-const", 0) + res.counters.get("feature:shortcut-lit", 0) > 0)
    return res.finish()
