"""C14 - object variables: exactly one value, reported domain, equality literal; exhaustive enumeration + assume/pop histories."""
import itertools

from vlib import build, common, drv, net

PID = "C14"


def gen_case(rnd, idx):
    pool = ["a%d" % i for i in range(rnd.randint(2, 7))]
    nv = rnd.randint(2, 4)
    doms = []
    for i in range(nv):
        c = rnd.random()
        if c < 0.15:
            d = [rnd.choice(pool)]
        elif c < 0.3 and doms:
            d = list(rnd.choice(doms))                      # identical domain
        elif c < 0.45 and doms:
            src = rnd.choice(doms)
            d = rnd.sample(src, rnd.randint(1, len(src)))   # nested
        elif c < 0.6 and doms:
            rest = [p for p in pool if p not in doms[0]]
            d = rnd.sample(rest, rnd.randint(1, len(rest))) if rest else rnd.sample(pool, rnd.randint(1, len(pool)))   # disjoint from the first
        else:
            d = rnd.sample(pool, rnd.randint(1, len(pool)))
        rnd.shuffle(d)
        doms.append(d)
    # keep the model count manageable: product of domain sizes <= 400
    while True:
        n = 1
        for d in doms:
            n *= len(d)
        if n <= 400:
            break
        big = max(doms, key=len)
        big.pop()
    eqs = []
    for _ in range(rnd.randint(1, 5)):
        a, b = rnd.randrange(nv), rnd.randrange(nv)
        eqs.append((a, b))
        if rnd.random() < 0.3:
            eqs.append((b, a))
    case = {"id": "c14-%d" % idx, "doms": doms, "eqs": eqs, "mode": rnd.choice(["enum", "hist", "hist"]), "hist": []}
    if case["mode"] == "hist":
        lits = ["o%d=%s" % (i, v) for i, d in enumerate(doms) for v in d if len(d) > 1] + ["e%d" % k for k in range(len(eqs))]
        depth = 0
        for _ in range(rnd.randint(4, 14)):
            c = rnd.random()
            if c < 0.6 or depth == 0:
                l = rnd.choice(lits)
                case["hist"].append("assume " + (l if rnd.random() < 0.55 else "!" + l))
                depth += 1
            elif c < 0.9:
                case["hist"].append("pop")
                depth -= 1
            else:
                case["hist"].append("root")
                depth = 0
    return case


def ops_of(case):
    ops = []
    for i, d in enumerate(case["doms"]):
        ops.append("ovar o%d %s" % (i, " ".join(d)))
    for k, (a, b) in enumerate(case["eqs"]):
        ops.append("oeq e%d o%d o%d" % (k, a, b))
    ops.append("propagate")
    if case["mode"] == "enum":
        ops.append("enum 200000")
    else:
        ops.append("obs")
        for h in case["hist"]:
            ops.append(h)
            ops.append("obs")
    return ops


def check_case(case, tr):
    fails = []
    feats = set()
    doms = case["doms"]
    nv = len(doms)
    allows = []
    idx = 1
    for i in range(nv):
        r = tr.res(idx)
        allows.append({v: net.plit(l) for v, l in r["allows"].items()})
        idx += 1
    eql = []
    for k, (a, b) in enumerate(case["eqs"]):
        eql.append(net.plit(tr.res(idx)))
        ncl = len(tr.hooks(idx, "clause"))
        if a == b:
            feats.add("eq-same-var")
        elif not set(doms[a]) & set(doms[b]):
            feats.add("eq-disjoint")
        elif ncl == 0:
            feats.add("eq-cache-hit")
        else:
            feats.add("eq-created")
        idx += 1
    if tr.res(idx) is not True:
        return [("root-conflict", "propagate() fails after creating variables and equalities")], feats
    idx += 1

    def mval_bits(M, lit):
        v, s = lit
        if v == 0:
            return not s
        return (M[v - 1] == "1") == s

    if case["mode"] == "enum":
        en = tr.res(idx)
        if en.get("root_conflict"):
            return [("root-conflict", "network inconsistent at root")], feats
        if en["trunc"]:
            return [("trunc", "")], feats
        seen = set()
        for M in en["models"]:
            choice = []
            bad = False
            for i in range(nv):
                tv = [v for v in doms[i] if mval_bits(M, allows[i][v])]
                if len(tv) != 1:
                    fails.append(("exactly-one", "accepted total assignment gives variable o%d (domain %s) the values %s" % (i, doms[i], tv)))
                    bad = True
                choice.append(tv[0] if tv else None)
            if bad:
                continue
            seen.add(tuple(choice))
            for k, (a, b) in enumerate(case["eqs"]):
                e = mval_bits(M, eql[k])
                same = choice[a] == choice[b]
                if e != same:
                    kind = "eq-true-different-values" if e else "eq-false-same-value"
                    if not set(doms[a]) & set(doms[b]):
                        kind = "eq-disjoint-domains-not-false"
                    if a == b:
                        kind = "eq-same-variable-not-true"
                    fails.append((kind, "o%d=%s o%d=%s but the equality literal is %s" % (a, choice[a], b, choice[b], e)))
        for tup in itertools.product(*doms):
            if tup not in seen:
                fails.append(("completeness", "the value combination %s is not accepted by the network" % (tup,)))
        return fails, feats

    # history mode -----------------------------------------------------------------------------
    feats.add("history")
    stack = []   # assumed literals (name, positive)
    all_tuples = list(itertools.product(*doms))

    def holds(tup, name, pos):
        if name.startswith("o"):
            i, v = name[1:].split("=")
            r = tup[int(i)] == v
        else:
            a, b = case["eqs"][int(name[1:])]
            r = tup[a] == tup[b]
        return r == pos

    def check_obs(o, where):
        val = o["val"]
        for i in range(nv):
            exp = sorted(v for v in doms[i] if net.lit_value(val, allows[i][v]) is not False) if len(doms[i]) > 1 else sorted(doms[i])
            got = sorted(o["ov"]["o%d" % i])
            if got != exp:
                fails.append(("value-vs-allows", "%s: value(o%d) reports %s but the values whose literal is not false are %s" % (where, i, got, exp)))
            poss = {t[i] for t in all_tuples if all(holds(t, n, p) for n, p in stack)}
            if not poss <= set(got) and len(stack) == o["lvl"]:
                fails.append(("value-excluded", "%s: value(o%d) reports %s although %s are still possible under %s" % (where, i, got, sorted(poss), stack)))
        # equality literals that are assigned must agree with what is possible
        for k, (a, b) in enumerate(case["eqs"]):
            ev = net.lit_value(val, eql[k])
            if ev is None or len(stack) != o["lvl"]:
                continue
            poss = {t[a] == t[b] for t in all_tuples if all(holds(t, n, p) for n, p in stack)}
            if poss and ev not in poss:
                fails.append(("eq-wrong-inference", "%s: equality e%d is assigned %s but only %s is possible" % (where, k, ev, poss)))

    check_obs(tr.obs(idx), "initial")
    idx += 1
    for h in case["hist"]:
        r = tr.res(idx)
        o = tr.obs(idx + 1)
        idx += 2
        if h.startswith("assume"):
            if r == "skip-assigned":
                feats.add("assumption-already-propagated")
            else:
                l = h.split()[1]
                pos = not l.startswith("!")
                nm = l.lstrip("!")
                before = len(stack)
                stack.append((nm, pos))
                if o["lvl"] <= before or r is False:
                    # the assumption was refuted (conflict + backjump): it must really be impossible
                    if any(all(holds(t, n, p) for n, p in stack) for t in all_tuples):
                        fails.append(("refuted-possible", "assume %s was refuted although value combinations satisfying %s exist" % (l, stack)))
                    feats.add("conflict")
                    stack = stack[:o["lvl"]]
        elif h == "pop":
            if r is True:
                stack.pop()
                feats.add("pop")
        elif h == "root":
            stack = []
        if len(stack) != o["lvl"]:
            stack = stack[:o["lvl"]]
        check_obs(o, "after '%s'" % h)
    return fails, feats


def work(exe, start, n):
    part = common.Partial()
    rnd = common.rng(PID, start)
    cases = [gen_case(rnd, start + i) for i in range(n)]
    traces = net.run_cases(exe, [net.program(c["id"], ops_of(c)) for c in cases])
    for case, tr in zip(cases, traces):
        fp = common.fingerprint([case["doms"], case["eqs"], case["mode"], case["hist"]])
        if tr is None:
            part.inconc("no answer")
            continue
        if isinstance(tr, drv.Crash):
            part.inconc("timeout" if tr.timeout else "abort (owned by C18): " + tr.site())
            continue
        fails, feats = check_case(case, tr)
        if any(f == "trunc" for f, d in fails):
            part.inconc("model enumeration truncated")
            continue
        part.case(fp, bool(feats & {"eq-created", "eq-cache-hit"}), {"ops": ops_of(case)})
        for f in feats:
            part.count("feature:" + f)
        part.count("mode:" + case["mode"])
        done = set()
        for f, d in fails:
            if f in done:
                continue
            done.add(f)
            part.violation("ov/" + f, d, {"ops": ops_of(case), "detail": d, "driver": "net_drv"})
    return part.dump()


def scale_work(exe, k):
    """many object variables and an equality between EVERY pair: equalities are cached under a key built from the two variable indices, and
    keys of different pairs must not coincide (1|112 vs 11|12); every equality literal is then checked on a total assignment"""
    part = common.Partial()
    rnd = common.rng(PID, "scale", k)
    n = rnd.randint(114, 124)
    vals = ["v0", "v1"] if k % 2 == 0 else ["v0", "v1", "v2"]
    ops = ["ovar o%d %s" % (i, " ".join(vals)) for i in range(n)]
    pairs = [(i, j) for i in range(n) for j in range(i + 1, n)]
    for (i, j) in pairs:
        ops.append("oeq e%d_%d o%d o%d" % ((i, j, i, j) if rnd.random() < 0.5 else (i, j, j, i)))
    ops.append("propagate")
    choice = [rnd.choice(vals) for _ in range(n)]
    for i in range(n):
        ops.append("assume o%d=%s" % (i, choice[i]))
    ops.append("obs")
    tr = net.run_cases(exe, [net.program("scale-%d" % k, ops)], per_case_timeout=120.0)[0]
    if not isinstance(tr, net.Trace):
        part.inconc("timeout" if tr is not None and tr.timeout else "abort / no answer in the scale instance")
        return part.dump()
    o = tr.obs(len(ops))
    lits = {}
    bad = None
    for idx, (i, j) in enumerate(pairs):
        r = tr.res(n + 1 + idx)
        l = net.plit(r)
        part.count("scale: equalities between distinct variables requested")
        if l in lits and bad is None:
            bad = ("same-literal-for-different-equalities", "o%d == o%d and o%d == o%d are different equalities over %d-valued variables but got the same literal %s" % (lits[l][0], lits[l][1], i, j, len(vals), r))
        lits.setdefault(l, (i, j))
        if o is not None and bad is None:
            v, sg = l
            x = o["val"][v] if v < len(o["val"]) else "2"
            want = choice[i] == choice[j]
            if x == "2" or ((x == "1") == sg) != want:
                bad = ("eq-literal-wrong-on-total-assignment", "with o%d = %s and o%d = %s the literal of o%d == o%d is %s" % (i, choice[i], j, choice[j], i, j, {"2": "unassigned"}.get(x, "true" if (x == "1") == sg else "false")))
    part.case(common.fingerprint(["scale", n, vals, k]), o is not None, {"variables": n, "values": vals, "pairs": len(pairs)})
    if bad:
        part.violation("ov/" + bad[0], bad[1], {"ops": ops[:n] + ["... every pair ..."] + ops[-n - 2:], "detail": bad[1], "driver": "net_drv"})
    return part.dump()


def run(tier):
    res = common.Result(PID, tier, "an instance = 2-4 object variables over a pool of <= 7 values (singleton / identical / nested / disjoint / overlapping domains) "
                        "and 1-10 equality requests (both argument orders, repeats, a==a); mode 'enum': all models enumerated through sat_core::check and "
                        "compared with the set semantics; mode 'hist': assume/pop histories over value and equality literals with value() compared, after "
                        "every step, with the allows() literals and with the brute-forced set of still possible values; non-trivial = an equality between "
                        "overlapping domains was created or served from the cache; plus a few instances with 114-124 variables and an equality between every pair (cache keys, literal identity, total assignment)")
    res.assumptions = ["variables created with the default enforce_exct_one=true (the planner's enforce_exct_one=false path is covered by C17 at solver level)"]
    exe = build.driver("dbg", "net_drv")
    total = 4800 if tier == "quick" else 150000
    per = 50 if tier == "quick" else 250
    common.pmap(work, [(exe, s, per) for s in range(0, total, per)], res)
    common.pmap(scale_work, [(exe, k) for k in range(4 if tier == "quick" else 32)], res)
    res.gate("scale instances (more than 113 variables, every pair equated)", res.counters.get("scale: equalities between distinct variables requested", 0) > 10000)
    res.gate("equality cache reached", res.counters.get("feature:eq-cache-hit", 0) > 0)
    res.gate("disjoint domains reached", res.counters.get("feature:eq-disjoint", 0) > 0)
    res.gate("multi-step histories with pops reached", res.counters.get("feature:pop", 0) > 0)
    return res.finish()
