"""C15 - rational / inf_rational / lin arithmetic against exact mathematics (Python Fraction)."""
import itertools
from fractions import Fraction

from vlib import build, common, drv
from vlib.xnum import (CMP, NINF, PINF, R_OPS, Undefined, canon_r, fmt_q, fmt_r, is_inf, l_add, l_clean, l_neg, l_scale, l_sub, parse_l,
                       parse_q, parse_r, q_add, q_cmp, q_div, q_neg, q_scale, q_sub, r_cmp, r_neg, raw_r, sgn)

PID = "C15"


# ------------------------------------------------------------------------------------------------
# operand domains
def small_rationals(nmax=6, dmax=6):
    vals = sorted({Fraction(n, d) for n in range(-nmax, nmax + 1) for d in range(1, dmax + 1)})
    return vals


def txt_r(r):
    if r == PINF:
        return "1/0"
    if r == NINF:
        return "-1/0"
    return "%d/%d" % (r.numerator, r.denominator)


def txt_q(q):
    return txt_r(q[0]) + "," + txt_r(q[1])


def txt_l(l):
    return ";".join([txt_r(l[1])] + ["%d:%s" % (v, txt_r(c)) for v, c in sorted(l[0].items())])


def klass_r(r):
    if r == PINF:
        return "+inf"
    if r == NINF:
        return "-inf"
    if r == 0:
        return "zero"
    return "finite"


def klass(kind, txt):
    if kind == "I":
        return klass_r(Fraction(int(txt)))
    if kind == "R":
        try:
            return klass_r(parse_r(txt))
        except Undefined:
            return "0/0"
    if kind == "Q":
        q = parse_q(txt)
        return klass_r(q[0]) + ("" if q[1] == 0 else "+eps")
    if kind == "L":
        l = parse_l(txt)
        return "lin(%dvars,k%s)" % (len(l[0]), "0" if l[1] == 0 else "!=0")
    return "?"


# ------------------------------------------------------------------------------------------------
# the model: expected answer for a request line (or Undefined)
def expect(form, a, b):
    name, _, tag = form.partition("_")
    if name in CMP:
        if tag in ("RR", "RI"):
            return "1" if CMP[name](r_cmp(parse_r(a), parse_r(b))) else "0"
        x = parse_q(a)
        y = parse_q(b)
        return "1" if CMP[name](q_cmp(x, y)) else "0"
    compound = name.startswith("i") and name[1:] in R_OPS
    base = name[1:] if compound else name
    if tag in ("RR", "RI", "IR") and base in R_OPS:
        r = R_OPS[base](parse_r(a), parse_r(b))
        return ("R2" if compound else "R", r)
    if form == "neg_R":
        return ("R", r_neg(parse_r(a)))
    if form in ("ctor_R", "ctor_I"):
        return ("R", parse_r(a))
    if form == "str_R":
        r = parse_r(a)
        if is_inf(r):
            return ("S", r)
        return ("S", str(r.numerator) if r.denominator == 1 else "%d/%d" % (r.numerator, r.denominator))
    if form == "pred_R":
        r = parse_r(a)
        s = sgn(r)
        inf = is_inf(r)
        bits = [(not inf) and r.denominator == 1, s == 0, s > 0, s >= 0, s < 0, s <= 0, inf, inf and s > 0, inf and s < 0]
        return ("S", "".join("1" if x else "0" for x in bits))
    if form == "pred_Q":
        q = parse_q(a)
        c = q_cmp(q, (Fraction(0), Fraction(0)))
        inf = is_inf(q[0])
        bits = [c == 0, c > 0, c >= 0, c < 0, c <= 0, inf, inf and c > 0, inf and c < 0]
        return ("S", "".join("1" if x else "0" for x in bits))
    if tag in ("QQ", "QR", "QI", "RQ", "IQ"):
        if tag == "QQ":
            x, y = parse_q(a), parse_q(b)
            r = q_add(x, y) if base == "add" else q_sub(x, y)
        elif tag in ("QR", "QI"):
            x, k = parse_q(a), parse_r(b)
            if is_inf(k) and base in ("mul", "div"):
                raise Undefined("inf_rational scaled by an infinite rational")
            if base == "add":
                r = q_add(x, (k, Fraction(0)))
            elif base == "sub":
                r = q_sub(x, (k, Fraction(0)))
            elif base == "mul":
                r = q_scale(x, k)
            else:
                r = q_div(x, k)
        else:
            k, x = parse_r(a), parse_q(b)
            if is_inf(k) and base == "mul":
                raise Undefined("inf_rational scaled by an infinite rational")
            if base == "add":
                r = q_add((k, Fraction(0)), x)
            elif base == "sub":
                r = q_sub((k, Fraction(0)), x)
            else:
                r = q_scale(x, k)
        return ("Q2" if compound else "Q", r)
    if form == "neg_Q":
        return ("Q", q_neg(parse_q(a)))
    if tag in ("LL", "LR", "RL") or form == "neg_L":
        if form == "neg_L":
            return ("L", l_neg(parse_l(a)))
        if tag == "LL":
            x, y = parse_l(a), parse_l(b)
            r = l_add(x, y) if base == "add" else l_sub(x, y)
        elif tag == "LR":
            x, k = parse_l(a), parse_r(b)
            if is_inf(k):
                raise Undefined("lin with infinite scalar")
            if base == "add":
                r = l_add(x, ({}, k))
            elif base == "sub":
                r = l_sub(x, ({}, k))
            elif base == "mul":
                r = l_scale(x, k)
            else:
                if k == 0:
                    raise Undefined("lin/0")
                r = l_scale(x, 1 / k)
        else:
            k, x = parse_r(a), parse_l(b)
            if is_inf(k):
                raise Undefined("lin with infinite scalar")
            if base == "add":
                r = l_add(({}, k), x)
            elif base == "sub":
                r = l_sub(({}, k), x)
            else:
                r = l_scale(x, k)
        return ("L2" if compound else "L", r)
    raise KeyError(form)


def check_answer(exp, ans):
    """returns None if ok, else a description"""
    if isinstance(exp, str):
        return None if ans == exp else "comparison says %s, exact order says %s" % (ans, exp)
    kind, val = exp
    if kind == "S":
        return None if ans == val else "got '%s', expected '%s'" % (ans, val)
    parts = ans.split(" ")
    if kind in ("R", "R2"):
        for p in parts:
            if raw_r(p) != canon_r(val):
                return "got %s, exact canonical result is %s" % (p, fmt_r(val))
        return None
    if kind in ("Q", "Q2"):
        for p in parts:
            ra, ea = p.split(",")
            if raw_r(ra) != canon_r(val[0]):
                return "got %s, exact result is %s" % (p, fmt_q(val))
            if not is_inf(val[0]) and raw_r(ea) != canon_r(val[1]):
                return "got %s, exact result is %s" % (p, fmt_q(val))
        return None
    if kind in ("L", "L2"):
        for p in parts:
            items = p.split(";")
            if raw_r(items[0]) != canon_r(val[1]):
                return "known term %s, exact %s (whole result %s)" % (items[0], fmt_r(val[1]), p)
            got = {}
            for it in items[1:]:
                v, c = it.split(":")
                n, d = raw_r(c)
                if n == 0:
                    continue  # zero coefficients are compared as absent
                got[int(v)] = (n, d)
            want = {v: canon_r(c) for v, c in val[0].items()}
            if got != want:
                return "coefficients %s, exact %s" % (p, sorted(want.items()))
        return None
    return "unknown kind"


# ------------------------------------------------------------------------------------------------
def gen_requests(tier, rnd):
    reqs = []
    sm = small_rationals(6, 6) if tier == "thorough" else small_rationals(4, 4)
    R = [NINF] + sm + [PINF]
    ints = list(range(-4, 5)) + [7, -9]
    cmpn = ["ne", "lt", "le", "eq", "ge", "gt"]
    arith = ["add", "sub", "mul", "div"]
    # rational x rational: exhaustive over the small domain
    for a, b in itertools.product(R, R):
        for f in cmpn:
            reqs.append((f + "_RR", txt_r(a), txt_r(b), "RR"))
        for f in arith:
            reqs.append((f + "_RR", txt_r(a), txt_r(b), "RR"))
            reqs.append(("i" + f + "_RR", txt_r(a), txt_r(b), "RR"))
    for a, i in itertools.product(R, ints):
        for f in cmpn:
            reqs.append((f + "_RI", txt_r(a), str(i), "RI"))
        for f in arith:
            reqs.append((f + "_RI", txt_r(a), str(i), "RI"))
            reqs.append(("i" + f + "_RI", txt_r(a), str(i), "RI"))
            reqs.append((f + "_IR", str(i), txt_r(a), "IR"))
    for a in R:
        reqs.append(("neg_R", txt_r(a), "-", "R"))
        reqs.append(("pred_R", txt_r(a), "-", "R"))
        reqs.append(("str_R", txt_r(a), "-", "R"))
    # constructor: non-reduced, negative denominators, infinities written with any magnitude
    for n in range(-8, 9):
        for d in range(-8, 9):
            if n == 0 and d == 0:
                continue
            reqs.append(("ctor_R", "%d/%d" % (n, d), "-", "R"))
        reqs.append(("ctor_I", str(n), "-", "I"))
    # inf_rational
    qr = [Fraction(-2), Fraction(-1, 2), Fraction(0), Fraction(1, 3), Fraction(1), Fraction(5, 2)]
    qe = [Fraction(-1), Fraction(0), Fraction(1, 2), Fraction(1), Fraction(-3, 2)]
    Q = [(r, e) for r in qr for e in qe] + [(PINF, Fraction(0)), (NINF, Fraction(0))]
    for a, b in itertools.product(Q, Q):
        for f in cmpn:
            reqs.append((f + "_QQ", txt_q(a), txt_q(b), "QQ"))
        for f in ("add", "sub"):
            reqs.append((f + "_QQ", txt_q(a), txt_q(b), "QQ"))
            reqs.append(("i" + f + "_QQ", txt_q(a), txt_q(b), "QQ"))
    Rs = [NINF, Fraction(-3), Fraction(-1), Fraction(-1, 2), Fraction(0), Fraction(1, 3), Fraction(1), Fraction(2), Fraction(7, 2), PINF]
    for a, k in itertools.product(Q, Rs):
        for f in cmpn:
            reqs.append((f + "_QR", txt_q(a), txt_r(k), "QR"))
        for f in arith:
            reqs.append((f + "_QR", txt_q(a), txt_r(k), "QR"))
            reqs.append(("i" + f + "_QR", txt_q(a), txt_r(k), "QR"))
        for f in ("add", "sub", "mul"):
            reqs.append((f + "_RQ", txt_r(k), txt_q(a), "RQ"))
    for a, i in itertools.product(Q, ints):
        for f in cmpn:
            reqs.append((f + "_QI", txt_q(a), str(i), "QI"))
        for f in arith:
            reqs.append((f + "_QI", txt_q(a), str(i), "QI"))
            reqs.append(("i" + f + "_QI", txt_q(a), str(i), "QI"))
        for f in ("add", "sub", "mul"):
            reqs.append((f + "_IQ", str(i), txt_q(a), "IQ"))
    for a in Q:
        reqs.append(("neg_Q", txt_q(a), "-", "Q"))
        reqs.append(("pred_Q", txt_q(a), "-", "Q"))
    # lin: random expressions over <= 4 variables, structured corner cases first
    coefs = [Fraction(-3), Fraction(-1), Fraction(-1, 2), Fraction(1, 3), Fraction(1), Fraction(2)]
    ks = [Fraction(0), Fraction(1), Fraction(-2), Fraction(3, 2)]

    def rl():
        n = rnd.choice([0, 1, 1, 2, 2, 3])
        vs = {v: rnd.choice(coefs) for v in rnd.sample(range(1, 5), n)}
        return (vs, rnd.choice(ks))
    lins = [({}, Fraction(0)), ({}, Fraction(3)), ({1: Fraction(1)}, Fraction(0)), ({1: Fraction(1)}, Fraction(1)), ({1: Fraction(-1)}, Fraction(2)),
            ({1: Fraction(1), 2: Fraction(-1)}, Fraction(0)), ({2: Fraction(1), 1: Fraction(-1)}, Fraction(-1))]
    lins += [rl() for _ in range(60 if tier == "thorough" else 25)]
    scal = [Fraction(0), Fraction(1), Fraction(-1), Fraction(2), Fraction(-1, 2), Fraction(3, 4)]
    for a in lins:
        reqs.append(("neg_L", txt_l(a), "-", "L"))
        for k in scal:
            for f in arith:
                reqs.append((f + "_LR", txt_l(a), txt_r(k), "LR"))
                reqs.append(("i" + f + "_LR", txt_l(a), txt_r(k), "LR"))
            for f in ("add", "sub", "mul"):
                reqs.append((f + "_RL", txt_r(k), txt_l(a), "RL"))
    for a, b in itertools.product(lins, lins[:20]):
        for f in ("add", "sub"):
            reqs.append((f + "_LL", txt_l(a), txt_l(b), "LL"))
            reqs.append(("i" + f + "_LL", txt_l(a), txt_l(b), "LL"))
    # random larger operands (no overflow possible for any reasonable algorithm: |n|,|d| < 2^14)
    nrand = 40000 if tier == "thorough" else 6000
    for _ in range(nrand):
        def rr():
            c = rnd.random()
            if c < 0.03:
                return rnd.choice([PINF, NINF])
            return Fraction(rnd.randint(-(1 << 14), 1 << 14), rnd.randint(1, 1 << 14))
        a, b = rr(), rr()
        f = rnd.choice(cmpn + arith + ["i" + x for x in arith])
        reqs.append((f + "_RR", txt_r(a), txt_r(b), "RR"))
        if rnd.random() < 0.3:
            q1 = (rr(), Fraction(rnd.randint(-5, 5), rnd.randint(1, 4)))
            q2 = (rr(), Fraction(rnd.randint(-5, 5), rnd.randint(1, 4)))
            q1 = (q1[0], Fraction(0)) if is_inf(q1[0]) else q1
            q2 = (q2[0], Fraction(0)) if is_inf(q2[0]) else q2
            f = rnd.choice(cmpn + ["add", "sub", "iadd", "isub"])
            reqs.append((f + "_QQ", txt_q(q1), txt_q(q2), "QQ"))
    return reqs


def work(exe, reqs):
    part = common.Partial()
    todo = []
    for (form, a, b, tag) in reqs:
        try:
            exp = expect(form, a, b)
        except Undefined:
            part.count("excluded: mathematically undefined")
            continue
        todo.append((form, a, b, tag, exp))
    crashed_forms = {}
    lines = ["%s %s %s" % (f, a, b) for (f, a, b, t, e) in todo]
    outs = drv.run_lines(exe, lines, per_line_timeout=0.05)
    for (form, a, b, tag, exp), ans in zip(todo, outs):
        kinds = list(tag) if tag not in ("R", "I", "Q", "L") else [tag]
        ops = [a, b][:len(kinds)]
        kl = ",".join(klass(k, o) for k, o in zip(kinds, ops))
        fp = "%s %s %s" % (form, a, b)
        if ans is None:
            part.inconc("no answer")
            continue
        nontriv = not isinstance(exp, str) or True
        part.case(fp, nontriv, sample={"request": fp, "answer": ans if not isinstance(ans, drv.Crash) else ans.site()})
        part.count("form:" + form.split("_")[0])
        if isinstance(ans, drv.Crash):
            if "skipped" in (ans.stderr or ""):
                part.inconc("skipped after crashes")
                continue
            key = "%s/%s/%s" % (form, kl, ans.site())
            part.violation(key, "%s(%s) on a defined input terminates the process: %s" % (form, kl, ans.site()),
                           {"request": fp, "stderr": ans.stderr[-1500:], "driver": "arith_drv"})
            continue
        bad = check_answer(exp, ans)
        if bad:
            key = "%s/%s/wrong-result" % (form, kl)
            part.violation(key, "%s on operands (%s): %s" % (form, kl, bad), {"request": fp, "answer": ans, "problem": bad, "driver": "arith_drv"})
    return part.dump()


def run(tier):
    res = common.Result(PID, tier, "every request is one operator form applied to one operand tuple; operand domain: all n/d with |n|,d <= %d plus +-inf "
                        "(exhaustive pairs), non-reduced constructor inputs, (rational,eps) pairs, random lin expressions, random operands < 2^14; "
                        "distinct = distinct request line; a request is non-trivial when it is mathematically defined" % (6 if tier == "thorough" else 4))
    res.assumptions = ["operands small enough that no 64-bit overflow can occur in any reasonable algorithm",
                       "undefined forms excluded: inf-inf, 0*inf, x/0, inf/inf, rational/inf_rational, inf_rational scaled by an infinite rational, lin with infinite scalar"]
    exe = build.driver("asan" if tier == "thorough" else "dbg", "arith_drv")
    rnd = common.rng(PID)
    reqs = gen_requests(tier, rnd)
    # group by form so that a crashing form does not starve the others
    reqs.sort(key=lambda r: r[0])
    n = common.NPROC * 4
    chunks = [reqs[i::n] for i in range(n)]
    common.pmap(work, [(exe, c) for c in chunks if c], res)
    res.gate("at least 60 operator forms exercised", len({r[0] for r in reqs}) >= 60)
    res.count("operator forms", len({r[0] for r in reqs}))
    return res.finish()
