"""C16 - RIDDLE is read and evaluated with the language's semantics.

(a) token streams: the real lexer vs a reference tokenizer written from the token table;
(b) acceptance: syntactically valid, well-typed programs (expression shapes in every statement position, declarations of every kind) must be read;
(c) evaluation: variables pinned to constant expressions must get exactly the denoted value; connectives their truth-table value.
"""
import os
import re
import shutil
import subprocess
import tempfile

from vlib import build, common, drv, rgen, riddle, rlex, solverlib
from vlib.riddle import Printer, ev

PID = "C16"

WORDS = list(rlex.KEYWORDS) + ["true", "false"]


def gen_stream(rnd):
    toks = []
    n = rnd.randint(1, 40)
    for _ in range(n):
        c = rnd.random()
        if c < 0.2:
            toks.append(rnd.choice(WORDS))
        elif c < 0.32:
            # near-keywords: prefixes / extensions of keywords are identifiers
            w = rnd.choice(WORDS)
            k = rnd.random()
            if k < 0.4:
                toks.append(w[:rnd.randint(1, len(w))] if len(w) > 1 else w)
            elif k < 0.8:
                toks.append(w + rnd.choice(["x", "_", "1", "s", "Z"]))
            else:
                toks.append(rnd.choice(["_", "x", "A"]) + w)
        elif c < 0.45:
            toks.append(rnd.choice(["a", "x1", "_t", "Foo", "bar_2", "i", "o", "t", "n", "v", "r", "s", "c", "e", "f", "g", "p", "b"]))
        elif c < 0.58:
            k = rnd.random()
            if k < 0.4:
                toks.append(str(rnd.randint(0, 10 ** rnd.randint(1, 9))))
            elif k < 0.5:
                toks.append("0" * rnd.randint(1, 3) + str(rnd.randint(0, 99)))
            elif k < 0.8:
                toks.append("%d.%s" % (rnd.randint(0, 999), "".join(rnd.choice("0123456789") for _ in range(rnd.randint(1, 6)))))
            elif k < 0.9:
                toks.append("." + "".join(rnd.choice("0123456789") for _ in range(rnd.randint(1, 5))))
            else:
                toks.append("%d." % rnd.randint(0, 99))
        elif c < 0.63:
            toks.append('"' + "".join(rnd.choice(["a", " ", "b", "\\\"", "\\\\", "/", "*", ";", "1"]) for _ in range(rnd.randint(0, 8))) + '"')
        else:
            toks.append(rnd.choice(list(rlex.OPS1) + list(rlex.OPS2) + ["==", "<=", ">=", "!=", "->", "=", "<", ">", "!", "-"]))
    text = ""
    for t in toks:
        c = rnd.random()
        if c < 0.35:
            sep = ""
        elif c < 0.75:
            sep = " "
        elif c < 0.85:
            sep = "\n"
        elif c < 0.9:
            sep = "\t"
        elif c < 0.95:
            sep = " /* x */ "
        else:
            sep = " // c\n"
        text += t + sep
    return text


def lex_work(exe, start, n):
    part = common.Partial()
    rnd = common.rng(PID, "lex", start)
    cases = []
    while len(cases) < n:
        text = gen_stream(rnd)
        try:
            ref = rlex.tokenize(text)
        except rlex.LexError:
            part.count("lex: generated streams the language does not define (skipped)")
            continue
        # (the reference token carries the VALUE; a numeral may also be long because of leading zeros or trailing decimals: what the lexer does with
        # more than 18 digit characters in a row is not defined by the language, it may accept or report them)
        if any(k in ("IntLiteral", "RealLiteral") and len(v) > 18 for k, v in ref) or re.search(r"[0-9][0-9.]{17,}", text):
            part.count("lex: streams with numerals beyond 64 bits (skipped: owned by C18)")
            continue
        cases.append((text, ref))
    os.makedirs(solverlib.TMP_ROOT, exist_ok=True)
    d = tempfile.mkdtemp(prefix="l", dir=solverlib.TMP_ROOT)
    try:
        files = []
        for i, (text, _) in enumerate(cases):
            p = os.path.join(d, "s%d.txt" % i)
            with open(p, "w") as fh:
                fh.write(text)
            files.append(p)
        todo = list(range(len(cases)))
        results = {}
        while todo:
            p = subprocess.run([exe] + [files[i] for i in todo], stdout=subprocess.PIPE, stderr=subprocess.PIPE, text=True, timeout=120, errors="replace", env=drv.san_env())
            blocks = p.stdout.split("@@FILE ")[1:]
            for k, b in enumerate(blocks):
                lines = b.split("\n")
                results[todo[k]] = [l for l in lines[1:] if l != ""]
            done = len(blocks)
            if p.returncode != 0 and done <= len(todo):
                bad = todo[done - 1] if done else todo[0]
                results[bad] = drv.Crash(p.returncode, drv.clip(p.stderr))
                todo = todo[max(done, 1):]
            else:
                todo = []
        for i, (text, ref) in enumerate(cases):
            r = results.get(i)
            fp = common.fingerprint(text)
            nontriv = len(ref) > 3
            part.case(fp, nontriv, {"lexer_input": text, "tokens": len(ref)})
            part.count("lex: streams compared")
            part.count("lex: tokens compared", len(ref))
            if isinstance(r, drv.Crash):
                part.violation("lexer/abort/" + r.site(), "the lexer terminates the process on a valid token stream", {"input": text, "stderr": r.stderr})
                continue
            toks, err = rlex.parse_driver_output(r or [])
            # leniency (DESIGN 2.5): the word 'this' may be lexed as a keyword or as an identifier
            toks = [("THIS", None) if t == ("ID", "this") else t for t in toks]
            if err is not None:
                part.violation("lexer/valid-stream-rejected", "the lexer rejects a valid token stream: " + str(err), {"input": text, "expected": ref[:50]})
                continue
            if toks != [(a, b) for a, b in ref]:
                # locate the first difference for the key
                k = 0
                while k < min(len(toks), len(ref)) and toks[k] == ref[k]:
                    k += 1
                exp = ref[k] if k < len(ref) else None
                got = toks[k] if k < len(toks) else None
                key = "lexer/token-mismatch/expected-%s-got-%s" % (exp[0] if exp else None, got[0] if got else None)
                part.violation(key, "token #%d: the language defines %s, the lexer produced %s" % (k, exp, got), {"input": text, "expected": ref[:60], "got": toks[:60]})
    finally:
        shutil.rmtree(d, ignore_errors=True)
    return part.dump()


# ---- acceptance of declaration shapes ----------------------------------------------------------------
def syntax_programs(rnd):
    """small valid programs, one language feature each (family 'syntax'); key = feature name"""
    P = []
    P.append(("enum", 'enum Color {"red", "green", "blue"};\nColor c;\n'))
    P.append(("enum-union", 'enum A {"a", "b"};\nenum B {"c"} | A;\nB x;\n'))
    P.append(("class-fields", "class C { real w; bool f; int k = 3; }\nC c0 = new C();\n"))
    P.append(("class-constructor-initlist", "class C { real w; C(real w) : w(w) {} }\nC c0 = new C(2.5);\n"))
    P.append(("class-constructor-body", "class C { real w; C(real a) { w == a + 1; } }\nC c0 = new C(2.0);\n"))
    P.append(("class-inheritance", "class A { real w; A(real w) : w(w) {} }\nclass B : A { B() : A(1.0) {} }\nB b = new B();\n"))
    P.append(("nested-class", "class O { class I { real q; } }\nO.I i = new O.I();\n"))
    P.append(("predicate-rule", "predicate P(real x) { x >= 1; }\ngoal g = new P();\n"))
    P.append(("predicate-inheritance", "predicate P(real x) { x >= 1; }\npredicate Q(real y) : P { y <= 0; }\nfact f = new Q();\n"))
    P.append(("class-predicate", "class C { predicate P(real x) { x >= 0; } }\nC c = new C();\nfact f = new c.P(x:1.0);\n"))
    P.append(("disjunction", "real x;\n{ x >= 5; } or { x <= -5; }\n"))
    P.append(("disjunction-costs", "real x;\n{ x >= 5; } [2.0] or { x <= -5; } [1.0]\n"))
    P.append(("block", "real x;\n{ x >= 5; x <= 7; }\n"))
    P.append(("assignment-field", "class C { real w; }\nC c = new C();\nreal z;\nz == c.w;\n"))
    P.append(("multi-declaration", "real a, b = 2.0, c;\na + b <= c;\n"))
    P.append(("this", "class C { real w; C() { this.w >= 1; } }\nC c = new C();\n"))
    P.append(("cast", "class A { }\nclass B : A { }\nB b = new B();\nA a = (A) b;\n"))
    P.append(("string-field", 'string s = "hello";\n'))
    P.append(("statement-starting-with-paren", "real x;\n(x + 1) * 2 >= 3;\n"))
    P.append(("statement-starting-with-minus", "real x;\n-x <= 3;\n"))
    P.append(("paren-starting-with-literal", "real x;\nx * (2 + 1) >= 3;\n"))
    P.append(("paren-starting-with-unary", "real x;\nx >= (-3 + 1);\n"))
    P.append(("paren-bool", "bool a; bool b;\na | (!b & a);\n"))
    P.append(("void-method", "void f() { }\n"))
    P.append(("void-method-with-body", "real x;\nvoid f(real a) { a >= 0; }\n"))
    P.append(("void-method-call", "real x;\nvoid f(real a) { a >= 0; }\nf(x);\n"))
    P.append(("typed-method-return", "class C { real w; real get() { return w; } }\nC c = new C();\n"))
    P.append(("typed-method-call", "real k;\nclass C { real w; }\nC mk() { return new C(); }\n"))
    P.append(("void-method-call-in-rule", "void chk(real a) { a >= 0; }\npredicate P(real x) { chk(x); }\nfact f = new P(x:1.0);\n"))
    P.append(("class-void-method", "class C { real w; void chk(real a) { a <= w; } }\nC c = new C();\n"))
    P.append(("tp-type", "tp t0; tp t1;\nt0 <= t1;\nt0 >= 1;\n"))
    P.append(("impulse-interval", "predicate I() : Interval { duration >= 1; }\npredicate M() : Impulse { }\nfact i = new I();\nfact m = new M(at:3.0);\n"))
    return P


def prog_work(exe_by_variant, start, n):
    part = common.Partial()
    rnd = common.rng(PID, "prog", start)
    names = sorted(exe_by_variant)
    for i in range(n):
        case = rgen.gen_pin(rnd, start + i)
        if not case["expect"]:
            continue
        variant = names[(start + i) % len(names)]
        out = solverlib.run_probe(exe_by_variant[variant], [case["text"]])
        fp = common.fingerprint(case["text"])
        depth = max((tree_depth(e) for e in case["exprs"].values()), default=0)
        st = out.status
        if st == "timeout":
            part.inconc("timeout")
            continue
        part.case(fp, depth >= 2, {"program": case["text"], "expected": {k: str(v) for k, v in case["expect"].items()}})
        part.count("pin: programs (%s)" % variant)
        if st == "crash":
            part.violation("pin/valid-program-aborts/" + out.crash.site(), "a valid program terminates the reader/solver: " + out.crash.site(), {"program": case["text"], "stderr": out.crash.stderr[-1500:], "variant": variant})
            continue
        if st in ("read-error", "solve-error", "unsolvable"):
            import re
            feat = re.sub(r"\[\d+, \d+\] ", "", (out.read_error or out.solve_error or "unsolvable"))[:70]
            part.violation("pin/valid-program-rejected/%s/%s" % (st, feat), "a valid program with pinned variables is rejected (%s: %s)" % (st, out.read_error or out.solve_error or "unsolvable"),
                           {"program": case["text"], "variant": variant, "status": st, "message": out.read_error or out.solve_error})
            continue
        sol = solverlib.Solution(out.post)
        for v, exp in case["expect"].items():
            part.count("pin: values compared")
            try:
                got = sol.lookup(v.split("."))
            except KeyError:
                part.violation("pin/value-missing", "variable %s is not in the solution" % v, {"program": case["text"], "variant": variant})
                continue
            if got != exp:
                ops = sorted(ops_in(case["exprs"][v]))
                small = minimal_failing_ops(case["exprs"][v], got, exp)
                part.violation("pin/wrong-value/" + small, "%s is pinned to %s = %s but the solution reports %s" % (v, riddle.show(case["exprs"][v]), fmt(exp), fmt(got)),
                               {"program": case["text"], "variant": variant, "variable": v, "expected": fmt(exp), "got": fmt(got), "operators": ops})
    return part.dump()


def fmt(v):
    if isinstance(v, tuple):
        return str(v[0]) + ("" if v[1] == 0 else " %+deps" % v[1])
    return str(v)


def ops_in(e):
    s = set()
    if e[0] not in ("num", "bool", "id"):
        s.add(e[0])
    for x in e[1:]:
        if isinstance(x, tuple):
            s |= ops_in(x)
        elif isinstance(x, list):
            for y in x:
                if isinstance(y, tuple):
                    s |= ops_in(y)
    return s


def tree_depth(e):
    d = 0
    for x in e[1:]:
        if isinstance(x, tuple):
            d = max(d, tree_depth(x))
        elif isinstance(x, list):
            for y in x:
                if isinstance(y, tuple):
                    d = max(d, tree_depth(y))
    return d + (1 if e[0] not in ("num", "bool", "id") else 0)


def features_of(case):
    s = set()
    for e in case["exprs"].values():
        s |= ops_in(e)
    return "+".join(sorted(s))[:60]


def minimal_failing_ops(e, got, exp):
    """a stable description of the failing expression: the set of operators of the expression (small trees dominate after dedup by key)"""
    return "+".join(sorted(ops_in(e))) or "literal"


def syntax_work(exe, seed_salt):
    part = common.Partial()
    rnd = common.rng(PID, "syntax", seed_salt)
    for name, text in syntax_programs(rnd):
        out = solverlib.run_probe(exe, [text])
        part.case(common.fingerprint(text), True, {"feature": name, "program": text})
        part.count("syntax: features tried")
        if out.status == "timeout":
            part.inconc("timeout")
        elif out.status == "crash":
            part.violation("syntax/%s/abort/%s" % (name, out.crash.site()), "valid program using '%s' terminates the process: %s" % (name, out.crash.site()), {"program": text, "stderr": out.crash.stderr[-1500:]})
        elif out.status == "read-error":
            part.violation("syntax/%s/rejected" % name, "valid program using '%s' is rejected: %s" % (name, out.read_error), {"program": text, "message": out.read_error})
    return part.dump()


def run(tier):
    res = common.Result(PID, tier, "(a) random token streams (keywords, near-keywords, identifiers, all numeric literal shapes, strings with escapes, every operator, random "
                        "separators and comments) tokenised by the real lexer and by a reference tokenizer; (b) one small valid program per declaration / statement "
                        "shape must be accepted; (c) programs pinning fresh variables to random constant expression trees (n-ary + - * /, unary, relations, & | ^ -> !, "
                        "bool ==/!=, redundant parentheses, random layout, a method with a return value) - the solution must report exactly the denoted value; (d) the generated programs of the constraint and planning families must be accepted (no error other than unsolvable); non-trivial = stream of > 3 tokens / "
                        "expression tree of depth >= 2 / any syntax program")
    res.assumptions = ["mixing different operators of one precedence level without parentheses is never generated (grouping not documented)",
                       "a parenthesised bare identifier is never generated: '(x) + 1' is a cast in this language",
                       "'5.' followed by a non-digit is accepted as the real literal 5 by both tokenizers"]
    lexe = build.driver("dbg", "lex_drv", libs=("riddle", "smt", "json"))
    probes = {v: build.driver(v, "probe", libs=("solver", "core", "riddle", "smt", "json")) for v in ("dbg", "rel")}
    nlex = 4000 if tier == "quick" else 300000
    npin = 1600 if tier == "quick" else 40000
    common.pmap(lex_work, [(lexe, s, 250) for s in range(0, nlex, 250)], res)
    common.pmap(prog_work, [(probes, s, 20) for s in range(0, npin, 20)], res)
    res.merge(syntax_work(probes["dbg"], 0))
    # (d) every generated (valid by construction) program of the other properties' families must be ACCEPTED: read() may only fail with the
    # unsolvable / inconsistent-problem outcome, never with another error
    from checks import c01, plan
    nacc = 400 if tier == "quick" else 12000
    common.pmap(c01.cons_work, [(probes, s + 900000, 20, PID) for s in range(0, nacc, 20)], res)
    common.pmap(c01.cons_work, [(probes, s + 900000, 20, PID, "tp") for s in range(0, nacc // 2, 20)], res)
    for fam in plan.FAMILIES[PID]:
        common.pmap(plan.work, [(probes, fam, s + 900000, 20, PID) for s in range(0, nacc // 2, 20)], res)
    res.gate("token streams compared", res.counters.get("lex: streams compared", 0) > 1000)
    res.gate("pinned values compared", res.counters.get("pin: values compared", 0) > 500)
    return res.finish()
