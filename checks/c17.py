"""C17 - object-oriented RIDDLE semantics: domains of object / enum variables, fields set by constructors, choices respect ==/!=."""
from fractions import Fraction

from vlib import build, common, objgen, solverlib
from checks import c01

PID = "C17"


def check_case(case, out, part, variant):
    """returns list of (owner, key, detail)"""
    fails = []
    pre = solverlib.Solution(out.pre)
    ids = {}
    for n, cl, f in case["instances"]:
        e = pre.top.get(n)
        if e is None or not isinstance(e["value"], int):
            fails.append(("C17", "instance-not-exposed", "instance %s is not a named object in the state after reading" % n))
            return fails
        ids[n] = e["value"]
    rev = {v: k for k, v in ids.items()}
    sols = objgen.solutions(case)

    def dom_ids(js_value):
        if isinstance(js_value, dict) and "vals" in js_value:
            return list(js_value["vals"])
        return [js_value]

    def check_fields(sol, stage):
        for n, cl, fields in case["instances"]:
            exposed = sol.fields_of(ids[n])
            for f, exp in fields.items():
                if f not in exposed:
                    fails.append(("C17", "field-missing", "%s: field %s.%s is not exposed" % (stage, n, f)))
                    continue
                v = exposed[f]["value"]
                part.count("fields compared")
                if isinstance(exp, bool):
                    got = v.get("val") if isinstance(v, dict) else v
                    if got != ("True" if exp else "False"):
                        fails.append(("C17", "field-value/initialiser", "%s: boolean field %s.%s should be %s but is %s" % (stage, n, f, exp, got)))
                elif isinstance(exp, Fraction):
                    got = solverlib.rat(v)
                    if got != (exp, Fraction(0)):
                        fails.append(("C17", "field-value/" + ("initialiser" if any(nm == f and init is not None for a in cl.ancestors() for k, t, nm, init in a.fields) else "constructor"),
                                      "%s: field %s.%s should be %s (constructor / initialiser semantics) but is %s" % (stage, n, f, exp, got)))
                elif exp[0] == "ref":
                    got = dom_ids(v)
                    if got != [ids[exp[1]]]:
                        fails.append(("C17", "field-value/object", "%s: field %s.%s should be the instance %s but is %s" % (stage, n, f, exp[1], [rev.get(g, g) for g in got])))
                elif exp[0] == "var":
                    got = set(dom_ids(v))
                    want = {ids[x] for x in case["field_vars"][exp[1]]["domain"]}
                    if not got <= want:
                        fails.append(("C17", "field-domain/extra-values", "%s: existential field %s.%s ranges over %s, expected a subset of %s" % (stage, n, f, sorted(rev.get(g, g) for g in got), sorted(case["field_vars"][exp[1]]["domain"]))))
                    if sols is not None and sols:
                        need = {ids[s[exp[1]]] for s in sols}
                        if stage == "after read" and not need <= got:
                            fails.append(("C17", "field-domain/value-lost", "%s: existential field %s.%s lost values that occur in solutions" % (stage, n, f)))

    check_fields(pre, "after read")
    enum_sets = {}
    for v, d in case["variables"].items():
        e = pre.top.get(v)
        if e is None:
            fails.append(("C17", "variable-not-exposed", "variable %s missing after read" % v))
            continue
        got = dom_ids(e["value"])
        part.count("variable domains compared")
        if len(set(got)) != len(got):
            fails.append(("C17", "domain/duplicate-values", "variable %s lists a value twice: %s" % (v, got)))
        if d["kind"] == "obj":
            want = {ids[x] for x in d["domain"]}
            if not set(got) <= want:
                fails.append(("C17", "domain/extra-values", "variable %s of type %s ranges over %s after reading, but only %s are instances of the type (and subtypes) created before its declaration" % (
                    v, d["type"], sorted(rev.get(g, g) for g in got), sorted(d["domain"]))))
            if sols:
                need = {ids[s[v]] for s in sols}
                if not need <= set(got):
                    fails.append(("C17", "domain/value-lost", "variable %s of type %s ranges over %s after reading, but %s occur in solutions" % (
                        v, d["type"], sorted(rev.get(g, g) for g in got), sorted(rev.get(g, g) for g in need))))
            aliases = {v} | {f for f, flds in case.get("atoms", {}).items() if flds["a"][1] == v}      # a fact's parameter is the variable that was passed
            unconstrained = not any(aliases & {x.split(".")[0] for x in c01.names_in(c)} for c in case["cons"])
            if unconstrained and set(got) != want:
                fails.append(("C17", "domain/unconstrained-variable", "unconstrained variable %s of type %s ranges over %s, expected exactly %s" % (v, d["type"], sorted(rev.get(g, g) for g in got), sorted(d["domain"]))))
        else:
            if not (len(got) == 1 and isinstance(got[0], str)):      # a single-valued enum variable is the value itself (a string), not a set of ids
                enum_sets.setdefault(d["type"], []).append((v, set(got)))
            unconstrained = not any(v in c01.names_in(c) for c in case["cons"])
            if len(set(got)) > len(d["domain"]) or (unconstrained and len(set(got)) != len(d["domain"])):
                fails.append(("C17", "enum-domain/size", "enum variable %s of type %s has %d values, the declaration (with included enums) gives %d" % (v, d["type"], len(set(got)), len(d["domain"]))))
    # enum inclusion structure: a variable of an enum that includes another enum ranges over a superset
    for e, lst in enum_sets.items():
        for inc in case["enums"][e][1]:
            for v1, s1 in lst:
                for v2, s2 in enum_sets.get(inc, []):
                    unc1 = not any(v1 in c01.names_in(c) for c in case["cons"])
                    unc2 = not any(v2 in c01.names_in(c) for c in case["cons"])
                    if unc1 and unc2 and not s2 <= s1:
                        fails.append(("C17", "enum-domain/included-values-missing", "%s (%s) does not contain the values of %s (%s) although %s includes %s" % (v1, e, v2, inc, e, inc)))
    if out.status != "solved":
        msg = out.read_error or out.solve_error or ""
        if sols and (out.status == "unsolvable" or "unsolvable" in msg or "inconsistent" in msg):
            fails.append(("C02", "obj/declared-unsolvable", "declared unsolvable (%s) although %d value combinations satisfy the constraints, e.g. %s" % (msg or out.status, len(sols), sols[0])))
        return fails
    post = solverlib.Solution(out.post)
    check_fields(post, "in the solution")
    asg = {}
    for v, d in list(case["variables"].items()):
        e = post.top.get(v)
        got = dom_ids(e["value"])
        part.count("solution choices compared")
        if len(got) != 1:
            fails.append(("C17", "solution/variable-not-single-valued", "in the solution variable %s has %d values" % (v, len(got))))
            return fails
        asg[v] = rev.get(got[0], got[0])
    for vid, d in case["field_vars"].items():
        n, f = vid.split(".")
        got = dom_ids(post.fields_of(ids[n])[f]["value"])
        if len(got) != 1:
            fails.append(("C17", "solution/field-not-single-valued", "in the solution the existential field %s has %d values" % (vid, len(got))))
            return fails
        asg[vid] = rev.get(got[0], got[0])
    if sols is not None:
        objonly = {k: v for k, v in asg.items() if k in case["field_vars"] or case["variables"][k]["kind"] == "obj"}
        if any(case["variables"][k]["kind"] == "enum" for k in case["variables"]):
            # enum values are only known by identity: compare equality patterns
            ok = any(all(s[k] == v for k, v in objonly.items()) and enum_pattern_ok(case, s, asg) for s in sols)
        else:
            ok = any(all(s[k] == v for k, v in objonly.items()) for s in sols)
        if not ok:
            fails.append(("C17", "solution/violates-object-constraint", "the chosen objects %s do not satisfy the stated ==/!= and field constraints %s" % (objonly, [riddle_show(c) for c in case["cons"]])))
    return fails


def enum_pattern_ok(case, s, asg):
    ev = [k for k in case["variables"] if case["variables"][k]["kind"] == "enum"]
    for a in ev:
        for b in ev:
            if (s[a] == s[b]) != (asg[a] == asg[b]):
                return False
    return True


def riddle_show(c):
    from vlib import riddle
    return riddle.show(c)


def work(exes, start, n, owner):
    part = common.Partial()
    rnd = common.rng("OBJ", start)
    names = sorted(exes)
    for i in range(n):
        case = objgen.gen_obj(rnd, start + i)
        variant = names[(start + i) % len(names)]
        out = solverlib.run_probe(exes[variant], [case["text"]])
        fp = common.fingerprint(case["text"])
        st = out.status
        if st == "timeout":
            part.inconc("timeout")
            continue
        if st == "crash":
            part.inconc("abort (owned by C18): " + out.crash.site())
            continue
        if out.pre is None:
            msg = out.read_error or ""
            sols = objgen.solutions(case)
            if sols and ("unsolvable" in msg or "inconsistent" in msg):
                if owner == "C02":
                    part.violation("obj/declared-unsolvable-while-reading", "rejected while reading (%s) although %d value combinations satisfy the constraints" % (msg, len(sols)), {"program": case["text"], "variant": variant})
                else:
                    part.count("failures owned by C02")
            elif sols is not None and not sols:
                part.count("obj: correctly rejected (no value combination satisfies the constraints)")
            else:
                part.count("obj: rejected with another error: " + msg[:60])
                if owner == "C17":
                    import re
                    part.violation("obj/valid-program-rejected/" + re.sub(r"\[\d+, \d+\] ", "", msg)[:60], "a valid program of the object-model family is rejected while reading: " + msg, {"program": case["text"], "variant": variant})
            part.case(fp, False, None)
            continue
        nontriv = any(len(d["domain"]) > 1 for d in case["variables"].values()) or bool(case["field_vars"])
        part.case(fp, nontriv, {"program": case["text"], "variant": variant})
        part.count("obj: outcome " + st)
        if len([c for c in case["classes"] if len(c.supers) > 1]):
            part.count("obj: programs with multiple inheritance")
        if case["enums"]:
            part.count("obj: programs with enums")
        done = set()
        for own, key, detail in check_case(case, out, part, variant):
            if own != owner:
                part.count("failures owned by " + own)
                continue
            if key in done:
                continue
            done.add(key)
            part.violation(key, detail, {"program": case["text"], "variant": variant, "detail": detail})
    return part.dump()


WITNESS_K3 = """class C0 {
}
class C1 {
    C0 r1;
}
C0 o0 = new C0();
C0 o1 = new C0();
C1 o2 = new C1();
C1 o3 = new C1();
C1 v1;
v1.r1 != o0;
v1 == o2;
"""


def witness_work(exes):
    """fixed witness of a recorded defect: a field that is itself an (existential) variable, read through a variable"""
    part = common.Partial()
    for variant in sorted(exes):
        out = solverlib.run_probe(exes[variant], [WITNESS_K3])
        part.case(common.fingerprint(["k3", variant]), True, {"program": WITNESS_K3, "variant": variant})
        if out.status != "solved":
            part.count("witness K3: outcome " + out.status)
            continue
        post = solverlib.Solution(out.post)
        ids = {e["name"]: e["value"] for e in out.post["exprs"] if not isinstance(e["value"], dict)}
        f = post.fields_of(ids["o2"])["r1"]["value"]
        got = f["vals"] if isinstance(f, dict) and "vals" in f else [f]
        part.count("witness K3: solutions inspected")
        if got == [ids["o0"]]:
            part.violation("existential-field-read-through-variable", "'v1.r1 != o0; v1 == o2;' is solved with o2.r1 = o0: the field r1 of the candidates is itself a variable "
                           "and var_item::get treats those variables as values", {"program": WITNESS_K3, "variant": variant})
    return part.dump()


def run(tier):
    res = common.Result(PID, tier, "programs with 1-4 classes (single / multiple / diamond inheritance, real and object fields, field initialisers, constructors with init lists "
                        "and explicit super-constructor calls), enums with unions, instances and variables declared in interleaved order, ==/!= between variables, "
                        "instances and enum variables and comparisons on fields reached through variables; a reference object model computes which instances exist "
                        "at each declaration, every field value, and (by brute force) all satisfying value combinations; compared with the state right after read() "
                        "and with the solution; non-trivial = some variable or existential field has more than one possible value")
    res.assumptions = ["enum values are only identifiable by identity in the JSON: enum domains are compared by size, inclusion structure and equality pattern",
                       "single-valued enums and object fields whose type has no instance yet are not generated (core::new_enum / new_existential assert on them)"]
    exes = {v: build.driver(v, "probe", libs=("solver", "core", "riddle", "smt", "json")) for v in ("dbg", "rel")}
    total = 3600 if tier == "quick" else 100000
    per = 20 if tier == "quick" else 50
    common.pmap(work, [(exes, s, per, PID) for s in range(0, total, per)], res)
    res.merge(witness_work(exes))
    res.gate("variable domains compared", res.counters.get("variable domains compared", 0) > 200)
    res.gate("fields compared", res.counters.get("fields compared", 0) > 200)
    res.gate("multiple inheritance exercised", res.counters.get("obj: programs with multiple inheritance", 0) > 0)
    res.gate("enums exercised", res.counters.get("obj: programs with enums", 0) > 0)
    return res.finish()
