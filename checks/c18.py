"""C18 - no abnormal termination: bad input is rejected with a reported error, valid use never aborts / trips an assertion / hangs / corrupts memory.

Monitor 1  any byte string -> lexer / parser / read():   prefixes and byte edits of programs, pathological literals, deep nesting, (thorough) libFuzzer
Monitor 2  valid programs  -> read() + solve():           every solver-level workload family + the shipped examples, ASan/UBSan (asserts on) and Release
Monitor 3  valid API call sequences -> constraint network: every network-level workload family under ASan/UBSan (asserts on), with leak checking
"""
import os
import re
import shutil
import subprocess
import tempfile

from vlib import build, common, drv, objgen, rgen, solverlib, net
from checks import c07, c10, c12, c13, c14, lra, plan

PID = "C18"
READ_TIMEOUT = 10.0      # bounded-progress restatement: an input of <= 4 KiB must be read within 10 s (typical: < 5 ms)


def site_key(crash):
    s = crash.site()
    s = re.sub(r"0x[0-9a-f]+", "ADDR", s)
    return s


# ------------------------------------------------------------------------------------------------------------------------------
# Monitor 1
def reader_inputs(rnd, tier):
    """(label, bytes) pairs"""
    out = []
    progs = []
    for name, files in plan.example_groups()[:60]:
        for f in files:
            progs.append(open(f, "rb").read())
    seen = set()
    progs = [p for p in progs if not (p in seen or seen.add(p))]
    gen = []
    for i in range(30 if tier == "quick" else 200):
        gen.append(rgen.gen_cons(rnd, i)["text"].encode())
        gen.append(objgen.gen_obj(rnd, i)["text"].encode())
        gen.append(plan.GEN["rules"](rnd, i)["text"].encode())
        gen.append(plan.GEN["sv"](rnd, i)["text"].encode())
    # every prefix (bounded: long files are cut at every k-th byte)
    for p in progs[:12 if tier == "quick" else len(progs)] + gen[:20 if tier == "quick" else len(gen)]:
        p = p[:4096]
        step = max(1, len(p) // (60 if tier == "quick" else 400))
        for k in range(0, len(p), step):
            out.append(("prefix", p[:k]))
    # deletions / insertions of delimiters
    for p in (progs[:10] + gen[:30]) if tier == "quick" else (progs + gen):
        p = p[:4096]
        idx = [i for i, c in enumerate(p) if c in b'(){};,"./*']
        for i in rnd.sample(idx, min(len(idx), 8 if tier == "quick" else 40)):
            out.append(("delete-delimiter", p[:i] + p[i + 1:]))
            out.append(("insert-delimiter", p[:i] + bytes([rnd.choice(b'(){};,"./*-!')]) + p[i:]))
    # pathological inputs
    out += [("unterminated-comment", b"real x; /* never closed"), ("unterminated-comment", b"/*"), ("unterminated-comment", b"real x; /* a * b"),
            ("unterminated-string", b'string s = "abc'), ("unterminated-string", b'"'), ("unterminated-string", b'enum E {"a", "b'),
            ("string-with-escape-at-end", b'string s = "abc\\'), ("newline-in-string", b'string s = "ab\ncd";'),
            ("long-numeral", b"real x; x == " + b"9" * 25 + b";"), ("long-numeral", b"real x; x == 0." + b"1" * 30 + b";"), ("long-numeral", b"int i = " + b"1" * 19 + b";"),
            ("two-dots", b"real x = 1.2.3;"), ("lone-dot", b"real x = .;"), ("byte-ff", b"real x;\xff real y;"), ("nul-byte", b"real x;\x00 real y;"),
            ("only-operators", b"== <= -> ^^ || &&"), ("empty", b""), ("whitespace", b" \t\r\n"),
            ("deep-parens", b"real x; x == " + b"(" * 2000 + b"1" + b")" * 2000 + b";"), ("deep-unary", b"real x; x == " + b"-" * 2000 + b"1;"),
            ("very-deep-parens", b"real x; x == " + b"(" * 150000 + b"1" + b")" * 150000 + b";"), ("very-deep-unary", b"real x; x == " + b"!" * 300000 + b"true;"),
            ("very-deep-blocks", b"{" * 150000 + b"real x;" + b"}" * 150000), ("very-deep-classes", b"".join(b"class C%d {" % i for i in range(60000)) + b"}" * 60000),
            ("deep-blocks", b"{" * 500 + b"real x;" + b"}" * 500), ("deep-nested-classes", b"".join(b"class C%d {" % i for i in range(300)) + b"}" * 300),
            ("keyword-soup", b"class class predicate goal fact new or this void return"), ("dangling-new", b"real x = new ;"), ("cast-soup", b"real x = (a.b.c) (d) e;")]
    # syntactically fine, semantically wrong or unsupported: must end in a reported error (or be accepted), never in terminate / a crash
    decls = ["real r; real s;", "int i; int j;", "bool b; bool c;", "tp t; tp u;", "class A { real w; A() {} real f(real x) { return x + w; } bool g() { return w > 0.0; } } A a = new A(); A a2 = new A(); A av;",
             "enum E {\"x\", \"y\"}; E e; E e2;", "predicate P(real q) { } class S : StateVariable { predicate Q() { } } S sv = new S();", "ReusableResource rr = new ReusableResource(3.0);"]
    terms = ["r", "s", "i", "j", "b", "c", "t", "u", "a", "a2", "av", "a.w", "av.w", "e", "e2", "sv", "rr", "rr.capacity", "1", "2.5", "true", "\"x\"", "a.f(1.0)", "a.g()", "a.f(b)", "a.f()", "a.nothing", "zz", "t + u", "2 * t",
             "t * u", "t / 2", "r * s", "r / s", "r / 0", "i / 0.0", "-t", "t - u - t", "b + 1", "e + 1", "a + a2"]
    rels = ["==", "!=", "<", "<=", ">", ">=", "&", "|", "^", "->"]
    sem = ["tp a; tp b; a + b <= 5.0;", "tp a; 2 * a <= 3.0;", "tp a; tp b; tp c; a - b + c <= 1.0;", "tp a; tp b; a - b == b - a;", "tp a; real r; a <= r;", "tp a; real r; r == 2.0; a - r <= 1.0;",
           "class M { real v; M() { v == inc(2.0); } real inc(real x) { return x + 1.0; } } M m = new M(); m.v >= 3.0;",
           "class M { real v; M() { v == inc(2); } real inc(real x) { return x + 1.0; } } M m = new M();", "class M { void h() { } M() { h(); } } M m = new M();",
           "class M { real f(real x) { return f(x); } real v; M() { v == 1.0; } } M m = new M();", "goal g = new Nothing();", "real r; goal g = new r.P();", "predicate P() { } fact f = new P(z:1.0);",
           "class A { } A a = new A(1.0);", "class A { A(real x) { } } A a = new A();", "class A : A { }", "class A : B { } class B : A { }", "enum E {\"x\"} | F; enum F {\"y\"} | E; E e;",
           "tp t; tp u; u != t / 2;", "tp t; tp u; u == t * 2;", "class A { real w; A(real x) : w() {} } A a = new A(1.0);", "class A { real w; A(real x) : w(x, x) {} } A a = new A(1.0);",
           "class A { real w; A(real x) : nothing(x) {} } A a = new A(1.0);", "class A { real w; } class B : A { B() : A(1.0) {} } B b = new B();",
           "real r = true;", "bool b = 1.0;", "real r; r.x == 1.0;", "class A { real w; } A a; a.w.w == 1.0;", "real r; real r;", "class A { } class A { }", "predicate P() { } predicate P() { }"]
    for p in sem:
        out.append(("semantic-error", p.encode()))
    # numerals around the 64-bit boundary: 17 to 21 digits, integer and decimal, odd and even last digit
    for nd in (17, 18, 19, 20, 21):
        for digits in ("9" * nd, "1234567890123456789012"[:nd], "2" + "0" * (nd - 1), "1" * nd):
            out.append(("boundary-numeral", ("int i = %s;" % digits).encode()))
            out.append(("boundary-numeral", ("real x = .%s; x >= 0.1;" % digits).encode()))
            out.append(("boundary-numeral", ("real x = 0.%s;" % digits).encode()))
            out.append(("boundary-numeral", ("real x = %s.%s;" % (digits[:nd // 2], digits[nd // 2:])).encode()))
    out += [("boundary-numeral", b"int i = 9223372036854775807;"), ("boundary-numeral", b"int i = 9223372036854775808;"), ("boundary-numeral", b"int i = -9223372036854775808;"),
            ("boundary-numeral", b"real x = 9223372036854775807.5;"), ("boundary-numeral", b"real x = 3037000500 * 3037000500;"), ("boundary-numeral", b"real x = 999999999999999999 * 999999999999999999;"),
            ("boundary-numeral", b"real x = 1 / 999999999999999999 / 999999999999999999;"), ("boundary-numeral", b"real x = 999999999999999999 + 999999999999999999 + 999999999999999999 + 999999999999999999 + 999999999999999999 + 999999999999999999 + 999999999999999999 + 999999999999999999 + 999999999999999999 + 999999999999999999;")]
    for i in range(60 if tier == "quick" else 1500):
        k = rnd.randint(1, 3)
        prog = " ".join(rnd.sample(decls, rnd.randint(2, 5))) + " " + " ".join("%s %s %s;" % (rnd.choice(terms), rnd.choice(rels), rnd.choice(terms)) for _ in range(k))
        out.append(("semantic-soup", prog.encode()))
    for i in range(40 if tier == "quick" else 400):
        n = rnd.randint(1, 60)
        out.append(("random-bytes", bytes(rnd.randrange(256) for _ in range(n))))
        toks = [rnd.choice([b"real", b"x", b";", b"(", b")", b"{", b"}", b"==", b"1", b"2.5", b"class", b"A", b":", b"new", b"goal", b"fact", b"=", b".", b",", b"!", b"-", b"|", b"predicate", b"\"s\"", b"/*", b"*/", b"//", b"\n"]) for _ in range(n)]
        out.append(("random-tokens", b" ".join(toks)))
    return out


def reader_work(exe, mode, start, items):
    part = common.Partial()
    os.makedirs(solverlib.TMP_ROOT, exist_ok=True)
    d = tempfile.mkdtemp(prefix="r", dir=solverlib.TMP_ROOT)
    try:
        files = []
        for i, (label, data) in enumerate(items):
            p = os.path.join(d, "i%d.rddl" % i)
            with open(p, "wb") as fh:
                fh.write(data)
            files.append(p)
        todo = list(range(len(items)))
        results = {}
        while todo:
            batch = todo[:200]
            try:
                p = subprocess.run([exe, mode] + [files[i] for i in batch], stdout=subprocess.PIPE, stderr=subprocess.PIPE, text=True, errors="replace",
                                   timeout=READ_TIMEOUT + 0.2 * len(batch), env=drv.san_env(), preexec_fn=drv._limits(2, exe))
                so, se, rc, to = p.stdout, p.stderr, p.returncode, False
            except subprocess.TimeoutExpired as ex:
                so = ex.stdout.decode(errors="replace") if isinstance(ex.stdout, bytes) else (ex.stdout or "")
                se = ex.stderr.decode(errors="replace") if isinstance(ex.stderr, bytes) else (ex.stderr or "")
                rc, to = None, True
            done = 0
            for m in re.finditer(r"@@FILE (\d+) (ok|error[^\n]*)\n", so):
                results[batch[int(m.group(1))]] = m.group(2)
                done = int(m.group(1)) + 1
            if done < len(batch):
                bad = batch[done]
                if to:
                    # re-run the suspect alone before calling it a hang
                    try:
                        p2 = subprocess.run([exe, mode, files[bad]], stdout=subprocess.PIPE, stderr=subprocess.PIPE, text=True, errors="replace", timeout=READ_TIMEOUT,
                                            env=drv.san_env(), preexec_fn=drv._limits(2, exe))
                        if p2.returncode == 0:
                            results[bad] = "ok-on-rerun"
                        else:
                            results[bad] = drv.Crash(p2.returncode, drv.clip(p2.stderr))
                    except subprocess.TimeoutExpired:
                        results[bad] = drv.Crash(None, "", timeout=True)
                else:
                    results[bad] = drv.Crash(rc, drv.clip(se))
                todo = todo[done + 1:]
            else:
                todo = todo[len(batch):]
        for i, (label, data) in enumerate(items):
            r = results.get(i)
            fp = common.fingerprint([mode, data.hex()])
            part.case(fp, len(data) > 0, {"mode": mode, "label": label, "input": data[:200].decode("latin1")})
            part.count("reader(%s): inputs" % mode)
            if isinstance(r, drv.Crash):
                if r.timeout:
                    key = "reader/%s/no-termination/%s" % (mode, label)
                    what = "the reader does not terminate within %ds on a %d-byte input (%s)" % (READ_TIMEOUT, len(data), label)
                elif "std::bad_alloc" in (r.stderr or "") or "allocation-size-too-big" in (r.stderr or "") or "out of memory" in (r.stderr or "").lower() or "rss limit" in (r.stderr or "").lower():
                    key = "reader/%s/memory-exhaustion/%s" % (mode, label)
                    what = "the reader exhausts a 2 GiB address space on a %d-byte input (%s)" % (len(data), label)
                else:
                    key = "reader/%s/abort/%s" % (mode, site_key(r))
                    what = "the reader terminates abnormally on a %d-byte input (%s): %s" % (len(data), label, r.site())
                part.violation(key, what, {"mode": mode, "label": label, "input_hex": data.hex()[:8000], "input": data[:400].decode("latin1"), "stderr": (r.stderr or "")[-1500:]})
            elif r is None:
                part.inconc("reader: no result")
            elif r.startswith("ok"):
                part.count("reader(%s): accepted" % mode)
            else:
                part.count("reader(%s): rejected with a reported error" % mode)
    finally:
        shutil.rmtree(d, ignore_errors=True)
    return part.dump()


# ------------------------------------------------------------------------------------------------------------------------------
# Monitor 2
SOLVER_FAMILIES = ["cons", "tp", "pin", "obj", "sv", "rr", "tl", "rules", "sx", "cyc", "sync", "task", "examples"]
TINY_FAMILIES = ("cons", "tp", "pin", "sx")       # a handful of variables / at most five atoms: a search that does not finish in minutes does not terminate


def gen_solver_case(family, rnd, idx):
    if family == "cons":
        return rgen.gen_cons(rnd, idx)
    if family == "tp":
        return rgen.gen_tp(rnd, idx)
    if family == "pin":
        return rgen.gen_pin(rnd, idx)
    if family == "obj":
        return objgen.gen_obj(rnd, idx)
    return plan.GEN[family](rnd, idx)


def solver_work(exes, family, start, n):
    part = common.Partial()
    rnd = common.rng(PID, "m2", family, start)
    names = sorted(exes)
    for i in range(n):
        case = gen_solver_case(family, rnd, start + i)
        variant = names[(start + i) % len(names)]
        out = solverlib.run_probe(exes[variant], case.get("texts") or [case["text"]], timeout=30.0)
        fp = common.fingerprint([family, case["text"]])
        st = out.status
        part.count("solver(%s): programs" % variant)
        if st == "timeout" and family in TINY_FAMILIES:
            # re-run once with a generous budget before calling it a hang
            out = solverlib.run_probe(exes[variant], case.get("texts") or [case["text"]], timeout=150.0)
            st = out.status
            if st == "timeout":
                part.case(fp, True, {"family": family, "variant": variant, "outcome": "no termination", "program": case["text"][:600]})
                part.violation("valid-program/no-termination/%s" % family, "read()+solve() of a tiny valid %s program does not return within 30 s nor, re-run, within 150 s (%s build)" % (family, variant),
                               {"family": family, "variant": variant, "program": case["text"]})
                continue
        if st == "timeout":
            part.inconc("solver search did not finish in 30 s (%s)" % family)
            continue
        part.case(fp, True, {"family": family, "variant": variant, "outcome": st, "program": case["text"][:600]})
        part.count("solver: outcome " + st)
        if st == "crash":
            key = "valid-program/abort/%s" % site_key(out.crash)
            part.violation(key, "read()+solve() of a valid %s program terminates abnormally (%s build): %s" % (family, variant, out.crash.site()),
                           {"family": family, "variant": variant, "program": case["text"], "stderr": (out.crash.stderr or "")[-2500:]})
    return part.dump()


# ------------------------------------------------------------------------------------------------------------------------------
# Monitor 3
def network_programs(family, rnd, start, n):
    progs = []
    for i in range(n):
        if family == "mixed":
            c = c07.gen_case(rnd, start + i, pop_heavy=(i % 2 == 0))
            progs.append(net.program(c["id"], c["ops"]))
        elif family == "dl":
            c = c10.gen_case(rnd, start + i, pop_heavy=(i % 2 == 0), big=(rnd.random() < 0.15))
            progs.append(net.program(c["id"], c10.ops_of(c)))
        elif family == "lra":
            c = lra.gen_case(rnd, start + i, pop_heavy=(i % 2 == 0))
            progs.append(net.program(c["id"], lra.ops_of(c)))
        elif family == "reified":
            c = c13.gen_case(rnd, start + i)
            progs.append(net.program(c["id"], c13.ops_of(c)))
        elif family == "ov":
            c = c14.gen_case(rnd, start + i)
            progs.append(net.program(c["id"], c14.ops_of(c)))
        elif family == "dlrel":
            c = c12.gen_case(rnd, start + i)
            progs.append(net.program(c["id"], c12.ops_of(c)))
    return progs


LEAK_RE = re.compile(r"(Direct|Indirect) leak of (\d+) byte\(s\) in (\d+) object\(s\) allocated from:\n((?:\s+#\d+ .*\n)+)")


def leak_sites(stderr):
    sites = {}
    for m in LEAK_RE.finditer(stderr or ""):
        fn = None
        for fm in re.finditer(r"#\d+ 0x[0-9a-f]+ in (.+?) ([^\s:()]+):\d+", m.group(4)):
            if drv.is_repo_path(fm.group(2)):
                fn = re.sub(r"\(.*", "", fm.group(1))
                break
        if fn:
            sites[fn] = sites.get(fn, 0) + int(m.group(2))
    return sites


def network_work(exe, family, start, n):
    part = common.Partial()
    rnd = common.rng(PID, "m3", family, start)
    progs = network_programs(family, rnd, start, n)
    env = drv.san_env({"ASAN_OPTIONS": "abort_on_error=1:detect_leaks=1:handle_abort=0:allocator_may_return_null=1:hard_rss_limit_mb=3000", "LSAN_OPTIONS": "exitcode=0"})
    # one process for the whole chunk: a crash is attributed to the open case, the rest is re-run
    i = 0
    while i < len(progs):
        chunk = progs[i:]
        try:
            p = subprocess.run([exe], input="\n".join(chunk) + "\n", stdout=subprocess.PIPE, stderr=subprocess.PIPE, text=True, errors="replace", timeout=300, env=env)
            so, se, rc, to = p.stdout, p.stderr, p.returncode, False
        except subprocess.TimeoutExpired as ex:
            so = ex.stdout.decode(errors="replace") if isinstance(ex.stdout, bytes) else (ex.stdout or "")
            se = ex.stderr.decode(errors="replace") if isinstance(ex.stderr, bytes) else (ex.stderr or "")
            rc, to = None, True
        answered = sum(1 for l in so.split("\n") if l.startswith("= "))
        for k in range(min(answered, len(chunk))):
            part.case(common.fingerprint(chunk[k]), True, {"family": family, "program": chunk[k][:500]} if k == 0 else None)
            part.count("network(%s): histories executed under ASan/UBSan" % family)
        if answered >= len(chunk):
            for fn, nbytes in leak_sites(se).items():
                part.violation("network/leak/" + fn, "the constraint network leaks memory allocated in %s (%d bytes over %d histories)" % (fn, nbytes, len(chunk)), {"family": family, "first_program": chunk[0], "stderr": se[-3000:]})
            if rc not in (0, None) and "LeakSanitizer" not in se:
                part.harness_errors.append("net_drv exited with %s after answering everything: %s" % (rc, se[-300:]))
            break
        bad = chunk[answered]
        cr = drv.Crash(rc, drv.clip(se), to)
        part.case(common.fingerprint(bad), True, None)
        if to:
            part.inconc("network history did not finish (timeout)")
        else:
            part.violation("network/abort/%s" % site_key(cr), "a precondition-respecting call sequence on the constraint network (%s family) terminates abnormally: %s" % (family, cr.site()),
                           {"family": family, "program": bad, "stderr": (cr.stderr or "")[-2500:]})
        i += answered + 1
    return part.dump()


def exec_work(exes, family, start, n):
    from checks import c19
    part = common.Partial()
    rnd = common.rng(PID, "m4", family, start)
    for i in range(n):
        case = plan.GEN[family](rnd, start + i)
        upt = rnd.choice(["1", "1/2", "2", "5", "3/2"])
        p_delay, p_fail, seed = rnd.choice([0, 20, 40]), rnd.choice([0, 0, 10]), rnd.randint(1, 10 ** 6)
        out, crash = c19.run_history(exes["asan"], case["text"], upt, seed, 120, p_delay, p_fail, timeout=120)
        part.count("executor: histories under ASan/UBSan")
        if crash is not None and crash.timeout:
            part.inconc("executor history did not finish in 120 s")
            continue
        part.case(common.fingerprint([case["text"], upt, seed, p_delay, p_fail]), True, {"family": family, "units_per_tick": upt, "seed": seed} if i == 0 else None)
        if crash is not None:
            part.violation("executor/abort/%s" % site_key(crash), "executing a solved %s plan (units_per_tick %s, delays %d%%, failures %d%%) terminates abnormally: %s" % (family, upt, p_delay, p_fail, crash.site()),
                           {"family": family, "program": case["text"], "units_per_tick": upt, "seed": seed, "p_delay": p_delay, "p_fail": p_fail, "stderr": (crash.stderr or "")[-2500:]})
    return part.dump()


# ------------------------------------------------------------------------------------------------------------------------------
def run(tier):
    res = common.Result(PID, tier, "monitor 1: prefixes / delimiter edits of shipped and generated programs, pathological literals and nesting, random bytes and token soups given to "
                        "riddle_parser and to solver::read under ASan/UBSan with a 10 s / 2 GiB bound per input; monitor 2: every solver-level workload family and the shipped "
                        "examples through read()+solve() under ASan/UBSan with assertions on, and on the Release build, plus several times as many programs on the plain assertion build; monitor 3: every network-level workload family "
                        "under ASan/UBSan with assertions on and LeakSanitizer; refuting events: signal, abort, std::terminate, sanitizer report, failed assertion, "
                        "no termination of the reader, memory exhaustion on a tiny input, a leak site inside the network layer; non-trivial = a non-empty input / "
                        "an executed program or history")
    res.assumptions = ["solver *search* that does not finish within the budget is inconclusive (planning is NP-hard); only the reader has a termination bound",
                       "UBSan vptr check is off (core::core() bumps its own reference count while its env base is under construction, by design); signed overflow is logged, not fatal",
                       "leaks are judged per allocation site and only for the network layer (solver-level objects are never freed by design: tokens, AST, flaws, resolvers)"]
    rd = build.driver("asan", "read_drv", libs=("solver", "core", "riddle", "smt", "json"))
    rnd = common.rng(PID, "m1")
    items = reader_inputs(rnd, tier)
    chunks = [items[i::common.NPROC] for i in range(common.NPROC)]
    common.pmap(reader_work, [(rd, "parse", k, c) for k, c in enumerate(chunks) if c], res)
    small = [it for it in items if len(it[1]) <= 4096]
    if tier == "quick":     # every other input, but all of the hand-written pathological / semantic ones (they are few and each is its own case)
        small = [it for k, it in enumerate(small) if k % 2 == 0 or not it[0].startswith(("prefix", "delete-delimiter", "insert-delimiter", "random", "semantic-soup"))]
    chunks = [small[i::common.NPROC] for i in range(common.NPROC)]
    common.pmap(reader_work, [(rd, "read", k, c) for k, c in enumerate(chunks) if c], res)
    # monitor 2
    exes = {v: build.driver(v, "probe", libs=("solver", "core", "riddle", "smt", "json")) for v in ("asan", "rel")}
    per_family = 60 if tier == "quick" else 1500
    for fam in SOLVER_FAMILIES:
        n = len(plan.example_groups()) * 2 if fam == "examples" else per_family
        common.pmap(solver_work, [(exes, fam, s, 6) for s in range(0, n, 6)], res)
    # monitor 2b: the assertion build alone (no sanitizer, cheap) on many more programs per family
    dexes = {"dbg": build.driver("dbg", "probe", libs=("solver", "core", "riddle", "smt", "json"))}
    for fam in SOLVER_FAMILIES:
        if fam != "examples":
            per_family = (2000 if fam in ("cons", "tp", "pin", "obj", "sx") else 400) if tier == "quick" else 8000
            common.pmap(solver_work, [(dexes, fam, 100000 + s, 20) for s in range(0, per_family, 20)], res)
    # monitor 3
    nd = build.driver("asan", "net_drv")
    per_family = 320 if tier == "quick" else 8000
    for fam in ("mixed", "dl", "lra", "reified", "ov", "dlrel"):
        common.pmap(network_work, [(nd, fam, s, 20) for s in range(0, per_family, 20)], res)
    # monitor 4: executor histories (scripted delays / failures) under ASan/UBSan with assertions on
    from checks import c19
    xd = {"asan": build.driver("asan", "exec_drv", libs=("executor", "solver", "core", "riddle", "smt", "json"))}
    nx = 48 if tier == "quick" else 1200
    for fam in ("sv", "rr", "tl", "sync"):
        common.pmap(exec_work, [(xd, fam, s, 4) for s in range(0, nx, 4)], res)
    if tier == "thorough":
        from checks import fuzz
        fuzz.run_fuzz(res)
    res.gate("reader inputs tried", res.counters.get("reader(parse): inputs", 0) > 300)
    res.gate("solver programs under ASan", res.counters.get("solver(asan): programs", 0) > 100)
    res.gate("network histories under ASan", sum(v for k, v in res.counters.items() if k.startswith("network(")) > 500)
    return res.finish()
