"""C19 - the executor dispatches the plan in time order and keeps it valid (scripted client with delays and failures)."""
import json
import os
import shutil
import subprocess
import tempfile
from fractions import Fraction

from vlib import build, common, drv, solverlib
from checks import plan

PID = "C19"


def pr(s):
    n, d = s.split("/")
    return Fraction(int(n), int(d))


def pq(v):
    return (pr(v[0]), pr(v[1]))


class Shim:
    def __init__(self, state, timelines):
        self.post = state
        self.timelines = timelines
        self.graph = None


def run_history(exe, text, upt, seed, max_ticks, p_delay, p_fail, timeout=60):
    os.makedirs(solverlib.TMP_ROOT, exist_ok=True)
    d = tempfile.mkdtemp(prefix="x", dir=solverlib.TMP_ROOT)
    try:
        f = os.path.join(d, "p.rddl")
        open(f, "w").write(text)
        try:
            p = subprocess.run([exe, f, upt, str(seed), str(max_ticks), str(p_delay), str(p_fail)], stdout=subprocess.PIPE, stderr=subprocess.PIPE, text=True,
                               errors="replace", timeout=timeout, env=drv.san_env(), preexec_fn=drv._limits(4, exe), cwd=d)
            return p.stdout, (None if p.returncode == 0 else drv.Crash(p.returncode, drv.clip(p.stderr)))
        except subprocess.TimeoutExpired as ex:
            so = ex.stdout.decode(errors="replace") if isinstance(ex.stdout, bytes) else (ex.stdout or "")
            return so, drv.Crash(None, "", timeout=True)
    finally:
        shutil.rmtree(d, ignore_errors=True)


def check_history(case, events, upt):
    """returns (fails [(key, detail)], stats)"""
    fails = []
    st = {"ticks": 0, "starts": 0, "ends": 0, "delays": 0, "failures": 0, "states": 0, "frozen_checks": 0}
    upt = Fraction(upt)
    asked_start, asked_end = {}, {}
    started, ended = {}, {}      # atom id -> (event index, recorded values)
    t_begin = None
    failed = set()
    stopped = None
    last_state = None
    for i, e in enumerate(events):
        ev = e["ev"]
        if ev == "tick_begin":
            t_begin = pr(e["time"])
        elif ev == "tick":
            if t_begin is not None and pr(e["time"]) != t_begin + upt:
                fails.append(("time-advance", "tick() moved the time from %s to %s with %s units per tick" % (t_begin, pr(e["time"]), upt)))
        elif ev == "tick_end":
            st["ticks"] += 1
            if pr(e["time"]) != t_begin + upt:
                fails.append(("time-advance", "after tick() the current time is %s, it was %s before (units per tick %s)" % (pr(e["time"]), t_begin, upt)))
            last_state = e
            st["states"] += 1
            sol = solverlib.Solution(e["state"])
            # nothing already started has moved
            for a, (idx, vals) in started.items():
                atom = sol.atoms.get(a)
                if atom is None or atom["state"] != "Active" or a in failed:
                    continue
                for p in atom["pars"]:
                    if p["name"] in ("start", "at") and p["name"] in vals:
                        st["frozen_checks"] += 1
                        now = solverlib.rat(p["value"])
                        if now != vals[p["name"]]:
                            fails.append(("started-atom-moved", "atom %s was started with %s = %s but later the plan says %s = %s" % (atom["predicate"], p["name"], vals[p["name"]], p["name"], now)))
            for a, (idx, vals) in ended.items():
                atom = sol.atoms.get(a)
                if atom is None or atom["state"] != "Active" or a in failed:
                    continue
                for p in atom["pars"]:
                    if p["name"] == "end" and "end" in vals:
                        st["frozen_checks"] += 1
                        now = solverlib.rat(p["value"])
                        if now != vals["end"]:
                            fails.append(("ended-atom-moved", "atom %s was ended with end = %s but later the plan says end = %s" % (atom["predicate"], vals["end"], now)))
            # the adapted plan is still a valid solution
            try:
                shim = Shim(e["state"], e["timelines"])
                pl = plan.Plan(shim)
                for chk in (plan.check_c06, plan.check_c04, plan.check_c05):
                    r = chk(case, pl, shim)
                    for own, key, detail in r[0]:
                        fails.append(("plan-invalid-after-tick/%s/%s" % (own, key.split("/")[0]), "after tick %d: %s" % (e["n"], detail)))
            except (KeyError, TypeError):
                pass
        elif ev == "starting":
            for a in e["atoms"]:
                a = int(a)
                asked_start[a] = "delay" if str(a) in e["delayed"] else "go"
            st["delays"] += len(e["delayed"])
        elif ev == "ending":
            for a in e["atoms"]:
                a = int(a)
                asked_end[a] = "delay" if str(a) in e["delayed"] else "go"
            st["delays"] += len(e["delayed"])
        elif ev == "start":
            now = pr(e["now"])
            for a, vals in e["atoms"].items():
                a = int(a)
                st["starts"] += 1
                v = {k: pq(x) for k, x in vals.items()}
                if a in started and a not in failed:
                    fails.append(("started-twice", "an atom was notified as started twice"))
                if asked_start.get(a) == "delay":
                    fails.append(("started-although-delayed", "an atom was started although the client's last answer to 'starting' was dont_start_yet"))
                if asked_start.get(a) is None:
                    fails.append(("started-without-asking", "an atom was started without a preceding 'starting' notification"))
                planned = v.get("start", v.get("at"))
                if planned is not None and planned > (now, Fraction(0)):
                    fails.append(("started-before-planned-time", "an atom planned to start at %s was started at time %s" % (planned, now)))
                started[a] = (i, v)
                asked_start.pop(a, None)
        elif ev == "end":
            now = pr(e["now"])
            for a, vals in e["atoms"].items():
                a = int(a)
                st["ends"] += 1
                v = {k: pq(x) for k, x in vals.items()}
                if a in ended and a not in failed:
                    fails.append(("ended-twice", "an atom was notified as ended twice"))
                if asked_end.get(a) == "delay":
                    fails.append(("ended-although-delayed", "an atom was ended although the client's last answer to 'ending' was dont_end_yet"))
                if "start" in v and a not in started:
                    fails.append(("ended-before-started", "an interval atom was ended without having been started"))
                planned = v.get("end", v.get("at"))
                if planned is not None and planned > (now, Fraction(0)):
                    fails.append(("ended-before-planned-time", "an atom planned to end at %s was ended at time %s" % (planned, now)))
                ended[a] = (i, v)
                asked_end.pop(a, None)
        elif ev == "failure":
            st["failures"] += 1
            for a in e["atoms"]:
                failed.add(a)
        elif ev in ("execution_exception", "exception", "unsolvable", "read-error"):
            stopped = ev
    if stopped is None and last_state is not None and events and events[-1]["ev"] == "finished":
        # bounded liveness: the horizon has passed, every active temporal atom must have been started and ended exactly once
        sol = solverlib.Solution(last_state["state"])
        for a in sol.atoms.values():
            if a["state"] != "Active" or a["id"] in failed:
                continue
            names = {p["name"] for p in a["pars"]}
            if not ({"start", "end"} <= names or "at" in names):
                continue
            if a["id"] not in started:
                s = [solverlib.rat(p["value"]) for p in a["pars"] if p["name"] in ("start", "at")]
                fails.append(("never-started", "active atom of %s (start %s) was never notified as started although the horizon has passed" % (a["predicate"], s and s[0][0])))
            elif a["id"] not in ended:
                fails.append(("never-ended", "active atom of %s was started but never notified as ended although the horizon has passed" % a["predicate"]))
    return fails, st, stopped


def work(exes, family, start, n):
    part = common.Partial()
    rnd = common.rng(PID, family, start)
    names = sorted(exes)
    for i in range(n):
        case = plan.GEN[family](rnd, start + i)
        variant = names[(start + i) % len(names)]
        upt = rnd.choice(["1", "1", "1/2", "2", "5", "3/2"])
        p_delay = rnd.choice([0, 15, 30, 50])
        p_fail = rnd.choice([0, 0, 0, 10])
        seed = rnd.randint(1, 10 ** 6)
        out, crash = run_history(exes[variant], case["text"], upt, seed, 160, p_delay, p_fail)
        fp = common.fingerprint([case["text"], upt, p_delay, p_fail, seed])
        events = []
        for line in out.split("\n"):
            if line.startswith("{"):
                try:
                    events.append(json.loads(line))
                except ValueError:
                    pass
        if crash is not None and crash.timeout:
            # re-run once with a generous budget before calling it a hang (these plans have a handful of atoms)
            out, crash = run_history(exes[variant], case["text"], upt, seed, 160, p_delay, p_fail, timeout=300)
            if crash is not None and crash.timeout:
                part.case(fp, True, {"family": family, "units_per_tick": upt, "p_delay": p_delay, "p_fail": p_fail, "seed": seed, "program": case["text"][:800]})
                part.violation("executor/no-termination", "executing the plan does not finish within 60 s nor, re-run, within 300 s (%s build)" % variant,
                               {"family": family, "program": case["text"], "units_per_tick": upt, "p_delay": p_delay, "p_fail": p_fail, "seed": seed, "variant": variant})
                continue
            events = []
            for line in out.split("\n"):
                if line.startswith("{"):
                    try:
                        events.append(json.loads(line))
                    except ValueError:
                        pass
        if crash is not None:
            if crash.timeout:
                part.inconc("history did not finish in 60 s")
            else:
                part.inconc("abort (owned by C18): " + crash.site())
                part.count("aborts seen: " + crash.site()[:80])
            continue
        if not events or events[0]["ev"] != "solved":
            part.count("problem not solved (no history)")
            part.case(None, False)
            continue
        fails, st, stopped = check_history(case, events, upt)
        part.case(fp, st["starts"] > 0, {"family": family, "units_per_tick": upt, "p_delay": p_delay, "p_fail": p_fail, "seed": seed, "program": case["text"][:800],
                                         "events": [e["ev"] for e in events][:80]})
        for k, v in st.items():
            part.count("histories: " + k, v)
        part.count("histories stopped by: " + str(stopped) if stopped else "histories run past the horizon")
        done = set()
        for key, detail in fails:
            if key in done:
                continue
            done.add(key)
            part.violation("executor/" + key, detail, {"family": family, "program": case["text"], "units_per_tick": upt, "p_delay": p_delay, "p_fail": p_fail, "seed": seed,
                                                       "variant": variant, "detail": detail, "events": [e if e["ev"] not in ("tick_end", "solved") else {"ev": e["ev"], "n": e.get("n")} for e in events][:300]})
    return part.dump()


def run(tier):
    res = common.Result(PID, tier, "a history = a solved timeline problem (state variables, reusable resources, interval / impulse predicates and agents; integer and fractional times) "
                        "plus a family of atoms on different timelines tied by relative temporal constraints) executed with units_per_tick in {1, 1/2, 3/2, 2, 5} by a scripted client that answers dont_start_yet / dont_end_yet for random subsets with "
                        "random delays and sometimes reports failure() of an executing atom, until the horizon has passed or execution_exception; the executor_listener "
                        "event log is checked by a per-atom state machine (time advance, started / ended exactly once and in order, not before the planned time, not "
                        "against the client's last answer, nothing started moves) and the plan after every tick by the C04/C05/C06 checkers; "
                        "non-trivial = at least one atom was started")
    res.assumptions = ["'never in a tick in which the client asked to delay it' is read as: start(a) / end(a) never follows a dont_start_yet / dont_end_yet answer for a without a new "
                       "starting(a) / ending(a) notification the client let pass",
                       "unbounded liveness is restated as: by horizon + 2 ticks + 3 idle ticks every still-active atom has been started and ended",
                       "execution_exception is a reported outcome: the history stops there"]
    exes = {v: build.driver(v, "exec_drv", libs=("executor", "solver", "core", "riddle", "smt", "json")) for v in ("dbg", "rel")}
    total = 1600 if tier == "quick" else 20000
    per = 20
    for fam in ("sv", "rr", "tl", "sync", "task"):
        common.pmap(work, [(exes, fam, s, per) for s in range(0, total, per)], res)
    res.gate("atoms started", res.counters.get("histories: starts", 0) > 200)
    res.gate("delays injected", res.counters.get("histories: delays", 0) > 50)
    res.gate("failures injected", res.counters.get("histories: failures", 0) > 0)
    res.gate("states checked after ticks", res.counters.get("histories: states", 0) > 500)
    return res.finish()
