"""C20 - parallel pivoting gives the sequential result and is race-free (PARALLELIZE=ON vs OFF differential + ThreadSanitizer)."""
import json
import os
import re
import subprocess
import time

from vlib import build, common, drv, net
from checks import lra

PID = "C20"


def gen_programs(rnd, start, n, scale):
    progs = []
    for i in range(n):
        c = lra.gen_case(rnd, start + i, pop_heavy=(i % 3 == 0), scale=scale)
        progs.append(net.program(c["id"], lra.ops_of(c)))
    return progs


def run_raw(exe, progs, env, timeout=600):
    p = subprocess.run([exe], input="\n".join(progs) + "\n", stdout=subprocess.PIPE, stderr=subprocess.PIPE, text=True, errors="replace", timeout=timeout, env=env)
    return p.returncode, p.stdout, p.stderr


def strip_end(line):
    """a trace line without the monitor's own pivot counters"""
    return re.sub(r',\{"end":true.*\}\]$', "]", line)


def diff_work(seq, par, start, n, scale):
    part = common.Partial()
    rnd = common.rng(PID, "diff", start)
    progs = gen_programs(rnd, start, n, scale)
    base_env = drv.san_env()
    t0 = time.time()
    try:
        rc, so, se = run_raw(seq, progs, base_env)
        seq_time = time.time() - t0
    except subprocess.TimeoutExpired:
        part.inconc("sequential run timed out")
        return part.dump()
    ref = [l for l in so.split("\n") if l.startswith("= ")]
    if rc != 0 or len(ref) != len(progs):
        part.inconc("sequential build aborted on the workload (owned by C18)")
        return part.dump()
    orders = [set() for _ in progs]
    marker = os.path.join(build.ROOT, "tmp", "c20-hang-%d" % os.getppid())     # set once a hang is confirmed: the other batches do not wait for it again
    hung = False
    for pool in (1, 2, 4, 16):
        for dseed in (0, 1 + start, 7 + start):
            if hung or os.path.exists(marker):
                part.count("parallel runs skipped after a confirmed hang")
                continue
            env = dict(base_env, ORATIO_VERIF_POOL_SIZE=str(pool))
            if dseed:
                env["VERIF_PIVOT_DELAY_SEED"] = str(dseed)
            budget = max(150, 80 * seq_time)
            try:
                rc, so, se = run_raw(par, progs, env, timeout=budget)
            except subprocess.TimeoutExpired:
                try:    # once more before calling it a hang: the sequential build needed seconds for the same programs
                    rc, so, se = run_raw(par, progs, env, timeout=budget)
                except subprocess.TimeoutExpired:
                    hung = True
                    os.makedirs(os.path.dirname(marker), exist_ok=True)
                    open(marker, "w").close()
                    part.violation("parallel/no-termination", "the PARALLELIZE build (pool size %d, delay seed %d) does not finish in %d s a batch the sequential build finishes in %.1f s, twice in a row" % (pool, dseed, budget, seq_time),
                                   {"first_program": progs[0], "pool": pool, "delay_seed": dseed})
                    continue
            got = [l for l in so.split("\n") if l.startswith("= ")]
            part.count("parallel runs (pool size %d)" % pool)
            if rc != 0 or len(got) != len(progs):
                k = len(got)
                cr = drv.Crash(rc, drv.clip(se))
                part.violation("parallel/abort/%s" % cr.site(), "the PARALLELIZE build terminates abnormally (pool size %d, delay seed %d) on a program the sequential build handles: %s" % (pool, dseed, cr.site()),
                               {"program": progs[min(k, len(progs) - 1)], "pool": pool, "delay_seed": dseed, "stderr": drv.clip(se)})
                continue
            for k, (a, b) in enumerate(zip(ref, got)):
                part.count("traces compared")
                end = json.loads(b[2:])[-1]
                part.count("pivot row-update tasks executed", end.get("pivot_tasks", 0))
                if end.get("pivot_tasks", 0):
                    orders[k].add(end.get("pivot_order"))
                    part.count("histories with reordered task completions", 1 if end.get("pivot_inversions", 0) else 0)
                    mc = end.get("pivot_maxconc", 0)
                    for thr in (2, 4, 8):
                        if mc >= thr:
                            part.count("runs in which >= %d row-update tasks were observed running at the same time" % thr)
                if strip_end(a) != strip_end(b):
                    ea, eb = json.loads(strip_end(a)[2:]), json.loads(strip_end(b)[2:])
                    j = 0
                    while j < min(len(ea), len(eb)) and ea[j] == eb[j]:
                        j += 1
                    part.violation("parallel/observable-differs", "with pool size %d (delay seed %d) event #%d differs from the sequential build: %s vs %s" % (pool, dseed, j, json.dumps(eb[j] if j < len(eb) else None)[:300], json.dumps(ea[j] if j < len(ea) else None)[:300]),
                                   {"program": progs[k], "pool": pool, "delay_seed": dseed, "event_index": j})
    for k, p in enumerate(progs):
        end = json.loads(ref[k][2:])
        part.case(common.fingerprint(p), any(e.get("h") == "slack" for e in end if isinstance(e, dict)), {"program": p[:600]} if k == 0 else None)
        part.count("distinct completion orders observed (sum over programs)", len(orders[k]))
    return part.dump()


RACE_RE = re.compile(r"WARNING: ThreadSanitizer: (data race|lock-order-inversion|thread leak|heap-use-after-free)[^\n]*\n(.*?)\n={10,}", re.S)


def tsan_work(tsan, start, n, scale):
    part = common.Partial()
    rnd = common.rng(PID, "tsan", start)
    progs = gen_programs(rnd, start, n, scale)
    for pool, dseed in ((4, 0), (16, 3 + start), (2, 11 + start)):
        env = drv.san_env({"TSAN_OPTIONS": "halt_on_error=0:second_deadlock_stack=1:history_size=4", "ORATIO_VERIF_POOL_SIZE": str(pool)})
        if dseed:
            env["VERIF_PIVOT_DELAY_SEED"] = str(dseed)
        if os.path.exists(os.path.join(build.ROOT, "tmp", "c20-hang-%d" % os.getppid())) and pool != 4:
            part.count("TSan runs skipped after a confirmed hang")
            continue
        timed_out = False
        try:
            rc, so, se = run_raw(tsan, progs, env, timeout=400)
        except subprocess.TimeoutExpired as ex:
            # the reports printed before the watchdog fired still count
            part.inconc("TSan run timed out")
            timed_out = True
            rc = None
            so = ex.stdout.decode(errors="replace") if isinstance(ex.stdout, bytes) else (ex.stdout or "")
            se = ex.stderr.decode(errors="replace") if isinstance(ex.stderr, bytes) else (ex.stderr or "")
        got = [l for l in so.split("\n") if l.startswith("= ")]
        part.count("TSan runs")
        for b in got:
            end = json.loads(b[2:])[-1]
            part.count("TSan: pivot tasks executed under the race detector", end.get("pivot_tasks", 0))
        for m in RACE_RE.finditer(se):
            body = m.group(2)
            frames = [re.sub(r"\(.*", "", f) for f in re.findall(r"#\d+ (.+?) (?:/[^\s:]+|<null>)", body) if "repo/" in body]
            repo_frames = [re.sub(r"[(<].*", "", fm.group(1)) for fm in re.finditer(r"#\d+ (.+?) ([^\s:()]+):\d+ \(", body) if drv.is_repo_path(fm.group(2))]
            if not repo_frames:
                part.count("TSan reports without a frame in the repository (ignored)")
                continue
            key = "tsan/%s/%s" % (m.group(1).replace(" ", "-"), "|".join(sorted(set(repo_frames[:4]))))
            part.violation(key, "ThreadSanitizer: %s involving %s" % (m.group(1), ", ".join(sorted(set(repo_frames[:4])))), {"report": body[:4000], "pool": pool, "delay_seed": dseed, "first_program": progs[0]})
        if len(got) != len(progs) and not timed_out:
            cr = drv.Crash(rc, drv.clip(se))
            part.violation("parallel-tsan/abort/%s" % cr.site(), "the TSan build terminates abnormally: " + cr.site(), {"stderr": drv.clip(se)})
    for p in progs:
        part.case(common.fingerprint(["tsan", p]), True, None)
    return part.dump()


def run(tier):
    res = common.Result(PID, tier, "LRA call sequences (dense systems: 6-15 variables, 9-30 requests sharing variables so that one pivot fans out into many row-update tasks; "
                        "assume / negate / pop histories) executed on the PARALLELIZE=OFF build and on the PARALLELIZE=ON build with thread-pool sizes 1, 2, 4 and 16 "
                        "and seeded yields / sleeps injected at the start and end of every row-update task; every observable (results, values, bounds, learnt "
                        "clauses, theory conflicts, in order) must be identical; the same workload runs under ThreadSanitizer (own build) and every report with a "
                        "frame in the repository is a violation; non-trivial = the program created slack rows")
    res.assumptions = ["'every schedule' is sampled: pool sizes x injected delays x repetition, plus TSan's happens-before analysis; not enumerated",
                       "the pool size is set through the guarded ORATIO_VERIF_POOL_SIZE knob (hardware_concurrency() does not follow CPU affinity in this sandbox)"]
    libs = ("smt", "json", "concurrent")
    seq = build.driver("seq", "net_drv")
    par = build.driver("par", "net_drv", libs=libs)
    tsan = build.driver("par-tsan", "net_drv", libs=libs)
    total = 960 if tier == "quick" else 20000
    per = 20
    common.pmap(diff_work, [(seq, par, s, per, 3) for s in range(0, total, per)], res)
    ttotal = 192 if tier == "quick" else 4800
    common.pmap(tsan_work, [(tsan, s, 12, 3) for s in range(0, ttotal, 12)], res, jobs=8)
    res.gate("row-update tasks executed in parallel builds", res.counters.get("pivot row-update tasks executed", 0) > 1000)
    res.gate("tasks actually ran concurrently", res.counters.get("runs in which >= 2 row-update tasks were observed running at the same time", 0) > 0)
    res.gate("task completions were reordered in some runs", res.counters.get("histories with reordered task completions", 0) > 0)
    res.gate("tasks executed under TSan", res.counters.get("TSan: pivot tasks executed under the race detector", 0) > 200)
    try:
        os.remove(os.path.join(build.ROOT, "tmp", "c20-hang-%d" % os.getpid()))
    except OSError:
        pass
    return res.finish()
