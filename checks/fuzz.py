"""libFuzzer leg of C18 monitor 1 (thorough tier): coverage-guided byte strings into riddle_parser and solver::read."""
import glob
import os
import shutil
import subprocess
import tempfile

from vlib import build, common, drv, solverlib
from checks import plan

TOKENS = ["bool", "int", "real", "tp", "string", "typedef", "enum", "class", "goal", "fact", "predicate", "new", "or", "this", "void", "return", "true", "false",
          "==", "<=", ">=", "!=", "->", "/*", "*/", "//", "\"", "Interval", "Impulse", "StateVariable", "ReusableResource", "Agent", "start", "end", "duration", "at",
          "origin", "horizon", "tau", "amount", "capacity", "Use"]


def run_fuzz(res, runs_parse=150000, runs_read=4000):
    os.makedirs(solverlib.TMP_ROOT, exist_ok=True)
    work = tempfile.mkdtemp(prefix="fz", dir=solverlib.TMP_ROOT)
    try:
        corpus = os.path.join(work, "corpus")
        os.makedirs(corpus)
        n = 0
        for name, files in plan.example_groups():
            for f in files:
                data = open(f, "rb").read()[:4096]
                open(os.path.join(corpus, "ex%d" % n), "wb").write(data)
                n += 1
        dic = os.path.join(work, "riddle.dict")
        with open(dic, "w") as fh:
            for t in TOKENS:
                fh.write('"%s"\n' % t.replace("\\", "\\\\").replace('"', '\\"'))
        for mode, runs in ((0, runs_parse), (1, runs_read)):
            exe = build.driver("fuzz", "fuzz_read", libs=("solver", "core", "riddle", "smt", "json"), compiler="clang++-14",
                               extra_flags="-fsanitize=fuzzer,address,undefined -fno-sanitize=vptr,object-size -DFUZZ_MODE=%d" % mode)
            procs = []
            for j in range(common.NPROC):
                art = os.path.join(work, "art-%d-%d" % (mode, j))
                os.makedirs(art)
                cmd = [exe, "-runs=%d" % runs, "-seed=%d" % (common.seed() * 1000 + j + 1), "-timeout=10", "-rss_limit_mb=2048", "-max_len=4096", "-dict=" + dic,
                       "-artifact_prefix=" + art + "/", "-print_final_stats=1", corpus]
                env = drv.san_env({"ASAN_OPTIONS": "abort_on_error=1:detect_leaks=0:handle_abort=1:quarantine_size_mb=8"})
                procs.append((j, art, subprocess.Popen(cmd, stdout=subprocess.PIPE, stderr=subprocess.PIPE, text=True, errors="replace", env=env)))
            for j, art, p in procs:
                try:
                    so, se = p.communicate(timeout=3600)
                except subprocess.TimeoutExpired:
                    p.kill()
                    so, se = p.communicate()
                    res.inconc("fuzzer job did not finish in an hour")
                execs = 0
                for line in se.split("\n"):
                    if line.startswith("stat::number_of_executed_units:"):
                        execs = int(line.split(":")[-1])
                res.count("fuzz(mode %d): executions" % mode, execs)
                res.evaluations += execs
                for a in glob.glob(os.path.join(art, "*")):
                    data = open(a, "rb").read()
                    kind = os.path.basename(a).split("-")[0]
                    cr = drv.Crash(p.returncode, drv.clip(se))
                    key = "reader/fuzz(%s)/%s/%s" % ("parse" if mode == 0 else "read", kind, cr.site())
                    res.violation(key, "libFuzzer found a %d-byte input on which the reader %s: %s" % (len(data), {"crash": "terminates abnormally", "timeout": "does not terminate in 10 s", "oom": "exhausts 2 GiB"}.get(kind, kind), cr.site()),
                                  {"input_hex": data.hex()[:8000], "input": data[:400].decode("latin1"), "stderr": drv.clip(se)})
                    res.nontrivial.add(common.fingerprint(data.hex()))
    finally:
        shutil.rmtree(work, ignore_errors=True)
