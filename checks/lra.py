"""Shared LRA workload + oracle for C09 (model/conflicts), C11 (meaning of relation literals), C08 (bounds restored).

Every failure is tagged with the property that owns it; each property's check reports only its own.
"""
from fractions import Fraction

from vlib import common, drv, net
from vlib.xnum import is_inf, PINF, NINF

RELS = ["lt", "leq", "eq", "geq", "gt"]
Z = Fraction(0)


def fr(x):
    return "%d/%d" % (x.numerator, x.denominator)


def lin_txt(l):
    """l = (dict var->coef, k)"""
    parts = []
    if l[1] != 0:
        parts.append("k=" + fr(l[1]))
    parts += ["x%d=%s" % (v, fr(c)) for v, c in sorted(l[0].items())]
    return ",".join(parts) if parts else "0"


def l_add(a, b, s=1):
    vs = dict(a[0])
    for v, c in b[0].items():
        vs[v] = vs.get(v, Z) + s * c
    return ({v: c for v, c in vs.items()}, a[1] + s * b[1])


def rand_coef(rnd):
    return Fraction(rnd.choice([1, 1, 1, -1, -1, 2, -2, 3, -3, 5]), rnd.choice([1, 1, 1, 1, 2, 3]))


def gen_case(rnd, idx, pop_heavy=False, scale=1):
    nv = rnd.randint(2, 5) * scale
    nreq = rnd.randint(3, 10) * scale
    reqs = []
    exprs = []
    for j in range(nreq):
        c = rnd.random()
        if exprs and c < 0.25:
            # syntactically different but equal / opposite / scaled request
            base = rnd.choice(exprs)
            e = ({v: cc for v, cc in base[0].items()}, base[1])
            k = rnd.choice([Fraction(1), Fraction(2), Fraction(-1), Fraction(1, 2)])
            e = ({v: cc * k for v, cc in e[0].items()}, e[1] * k + (rnd.choice([0, 0, 1, -1]) if rnd.random() < 0.5 else 0))
        else:
            nvars = rnd.choice([1, 1, 2, 2, 3, min(4, nv)])
            vs = rnd.sample(range(nv), min(nvars, nv))
            e = ({v: rand_coef(rnd) for v in vs}, Fraction(rnd.randint(-8, 8), rnd.choice([1, 1, 2])))
        exprs.append(e)
        # distribute e <rel> 0 over both sides, possibly with a cancelling variable and constants on both sides
        left = ({}, Z)
        right = ({}, Z)
        for v, cc in e[0].items():
            if rnd.random() < 0.6:
                left = l_add(left, ({v: cc}, Z))
            else:
                right = l_add(right, ({v: -cc}, Z))
        k1 = Fraction(rnd.randint(-3, 3)) if rnd.random() < 0.4 else Z
        left = (left[0], left[1] + e[1] + k1)
        right = (right[0], right[1] + k1)
        if rnd.random() < 0.12:
            z = rnd.randrange(nv)
            d = rand_coef(rnd)
            left = l_add(left, ({z: d}, Z))
            right = l_add(right, ({z: d}, Z))
        reqs.append({"rel": rnd.choice(RELS), "l": left, "r": right, "e": e})
    steps = []
    created = []
    for j in range(nreq):
        steps.append(("req", j))
        created.append(j)
        if rnd.random() < 0.22:
            steps.append(("unit", rnd.choice(created), rnd.random() < 0.7))
            if rnd.random() < 0.75:
                steps.append(("propagate",))
    clauses = []
    if rnd.random() < 0.3:
        for _ in range(rnd.randint(1, 3)):
            clauses.append([(rnd.randrange(nreq), rnd.random() < 0.5) for _ in range(rnd.randint(2, 3))])
        for cl in clauses:
            steps.append(("clause", cl))
    steps.append(("propagate",))
    hist = []
    depth = 0
    L = (rnd.randint(8, 24) if pop_heavy else rnd.randint(4, 14)) * scale
    for _ in range(L):
        c = rnd.random()
        if c < (0.5 if pop_heavy else 0.65) or depth == 0:
            hist.append(("assume", rnd.randrange(nreq), rnd.random() < 0.6))
            depth += 1
        elif c < 0.93:
            hist.append(("pop",))
            depth -= 1
        else:
            hist.append(("root",))
            depth = 0
    return {"id": "lra-%d" % idx, "nv": nv, "reqs": reqs, "steps": steps, "hist": hist, "clauses": clauses}


def ops_of(case):
    ops = ["lvar x%d" % i for i in range(case["nv"])]
    for st in case["steps"]:
        if st[0] == "req":
            q = case["reqs"][st[1]]
            ops.append("obs")
            ops.append("lrel p%d %s %s %s" % (st[1], q["rel"], lin_txt(q["l"]), lin_txt(q["r"])))
        elif st[0] == "unit":
            ops.append("clause %sp%d" % ("" if st[2] else "!", st[1]))
        elif st[0] == "clause":
            ops.append("clause " + " ".join("%sp%d" % ("" if p else "!", i) for i, p in st[1]))
        else:
            ops.append("propagate")
    ops.append("obs")
    for h in case["hist"]:
        if h[0] == "assume":
            ops.append("assume %sp%d" % ("" if h[2] else "!", h[1]))
        else:
            ops.append(h[0])
        ops.append("obs")
    return ops


# ---- exact (rational, eps) helpers ---------------------------------------------------------------
def qv(s):
    a, b = net.pq(s)
    return (a, b)


def q_fin(q):
    return not is_inf(q[0])


def q_lt(a, b):
    """strict order on pairs with infinities"""
    from vlib.xnum import q_cmp
    return q_cmp(a, b) < 0


def q_le(a, b):
    from vlib.xnum import q_cmp
    return q_cmp(a, b) <= 0


def ev_lin(l, vals):
    r, e = l[1], Z
    for v, c in l[0].items():
        r += c * vals[v][0]
        e += c * vals[v][1]
    return (r, e)


def rel_holds(rel, d):
    """d = value of (left - right) as a pair"""
    zero = (Z, Z)
    if rel == "lt":
        return d < zero
    if rel == "leq":
        return d <= zero
    if rel == "eq":
        return d == zero
    if rel == "geq":
        return d >= zero
    return d > zero


NEG = {"lt": "geq", "leq": "gt", "geq": "lt", "gt": "leq"}


class LRAChecker:
    def __init__(self, case, tr):
        import z3
        self.z3 = z3
        self.case, self.tr = case, tr
        self.fails = []        # (owner, key, detail)
        self.feats = set()
        self.stats = {"obs": 0, "z3": 0, "lemmas": 0, "tconf": 0, "models": 0, "bounds_cmp": 0}
        self.lit = {}          # request index -> (var, sign)
        self.parts = {}        # conjunction variable of an eq request -> literals of the conjunction's parts (from the Tseitin clauses seen through the hook)
        self.slack = {}        # lra var -> lin over lra var ids
        self.asrt = {}         # sat var -> (op, x, (r, e))
        self.init_bounds = {}  # slack -> (lb, ub) at creation
        self.units = []
        self.s = z3.Solver()       # the library's view: clauses seen through the hook + meaning of assertion variables
        self.s.set("timeout", 5000)
        self.st = z3.Solver()      # pure theory view: only the definitions of slack variables (conjunctive feasibility of asserted atoms)
        self.st.set("timeout", 5000)
        self.s11 = z3.Solver()     # the intended view: relations the harness requested and asserted at root (base variables only)
        self.s11.set("timeout", 5000)
        self.zx = {}
        self.zb = {}

    def fail(self, owner, key, detail):
        self.fails.append((owner, key, detail))

    # ---- z3 translation
    def zvar(self, v):
        z3 = self.z3
        if v not in self.zx:
            self.zx[v] = z3.Real("x%d" % v)
            if v in self.slack:
                l = self.slack[v]
                d = self.zx[v] == self.zlin((l[0], l[1]))
                self.s.add(d)
                self.st.add(d)
        return self.zx[v]

    def zlin(self, l):
        z3 = self.z3
        t = z3.RealVal(str(l[1]))
        for v, c in l[0].items():
            t = t + z3.RealVal(str(c)) * self.zvar(v)
        return t

    def zrel(self, rel, l, r):
        a, b = self.zlin(l), self.zlin(r)
        return {"lt": a < b, "leq": a <= b, "eq": a == b, "geq": a >= b, "gt": a > b}[rel]

    def zreq(self, j, pos=True):
        q = self.case["reqs"][j]
        f = self.zrel(q["rel"], q["l"], q["r"])
        return f if pos else self.z3.Not(f)

    def zasrt(self, b):
        """meaning of control variable b (from the hook), as a z3 formula"""
        op, x, v = self.asrt[b]
        zx = self.zvar(x)
        c = self.z3.RealVal(str(v[0]))
        if op == 0:      # x <= v
            return zx < c if v[1] < 0 else zx <= c
        return zx > c if v[1] > 0 else zx >= c

    def zlit(self, s):
        v, sg = net.plit(s)
        if v == 0:
            return self.z3.BoolVal(not sg)
        if v in self.asrt:
            f = self.zasrt(v)
            return f if sg else self.z3.Not(f)
        if v not in self.zb:
            self.zb[v] = self.z3.Bool("b%d" % v)
        return self.zb[v] if sg else self.z3.Not(self.zb[v])

    def zcheck(self, extra):
        self.stats["z3"] += 1
        self.s.push()
        self.s.add(extra)
        r = self.s.check()
        self.s.pop()
        return r

    def zcheckt(self, extra):
        self.stats["z3"] += 1
        self.st.push()
        self.st.add(extra)
        r = self.st.check()
        self.st.pop()
        return r

    def zcheck11(self, extra):
        self.stats["z3"] += 1
        self.s11.push()
        self.s11.add(extra)
        r = self.s11.check()
        self.s11.pop()
        return r

    # ---- hooks
    def hooks(self, idx):
        z3 = self.z3
        for h in self.tr.hooks(idx):
            k = h["h"]
            if k == "slack":
                l = h["lin"]
                self.slack[h["x"]] = ({int(v): Fraction(*map(int, c.split("/"))) for v, c in l.items() if v != "k"}, Fraction(*map(int, l["k"].split("/"))))
            elif k == "asrt":
                self.asrt[h["b"]] = (h["op"], h["x"], qv(h["v"]))
            elif k == "clause":
                # Tseitin clauses of conjunctions (new_eq) etc.: part of the propositional skeleton
                self.s.add(z3.Or([self.zlit(s) for s in h["l"]]) if h["l"] else z3.BoolVal(False))
            elif k in ("learnt", "tconf"):
                self.stats["lemmas" if k == "learnt" else "tconf"] += 1
                if k == "tconf" and h.get("nf"):
                    self.fail("C08,C09", "explanation-with-non-false-literal", "the conflict clause %s contains literals that are not false when it is reported: %s; meanings: %s" % (h["l"], h["nf"], self.meanings(h["l"])))
                # explanations are judged modulo everything that holds at root level (bounds copied into a new slack lose their
                # reason literal and are explained by TRUE): clauses added so far + meaning of the assertion variables
                if True:
                    r = self.zcheck(z3.Not(z3.Or([self.zlit(s) for s in h["l"]])))
                if r == z3.sat:
                    self.fail("C09", "invalid-explanation" if k == "tconf" else "invalid-lemma",
                              "%s clause %s is not a consequence (its negation is feasible); meanings: %s" % (k, h["l"], self.meanings(h["l"])))

    def meanings(self, lits):
        out = {}
        for s in lits:
            v, sg = net.plit(s)
            if v in self.asrt:
                op, x, val = self.asrt[v]
                out[s] = "x%d %s %s%s" % (x, "<=" if op == 0 else ">=", val[0], "" if val[1] == 0 else "%+deps" % val[1])
        return out

    # ---- observations
    def vals(self, o):
        return [tuple(qv(x) for x in row) for row in o["lra"]]

    def active_z(self, val):
        fs = []
        for b in self.asrt:
            c = val[b]
            if c == "1":
                fs.append(self.zasrt(b))
            elif c == "0":
                fs.append(self.z3.Not(self.zasrt(b)))
        return fs

    def check_obs(self, o, where, prev_root=False):
        z3 = self.z3
        self.stats["obs"] += 1
        V = self.vals(o)
        val = o["val"]
        values = [v[0] for v in V]
        # 1. values within bounds
        for x, (v, lb, ub) in enumerate(V):
            if q_lt(v, lb) or q_lt(ub, v):
                self.fail("C09", "value-out-of-bounds", "%s: value(x%d)=%s not in [%s, %s]" % (where, x, v, lb, ub))
                return False
        # 2. slack definitions
        for x, l in self.slack.items():
            if x < len(V) and ev_lin(l, values) != values[x]:
                self.fail("C09", "slack-definition-violated", "%s: x%d = %s evaluates to %s but value(x%d) = %s" % (where, x, l, ev_lin(l, values), x, values[x]))
                return False
        # 3. assigned assertion literals hold on the values
        for b, (op, x, v) in self.asrt.items():
            c = val[b]
            if c == "2":
                continue
            xv = values[x]
            holds = (xv <= v) if op == 0 else (xv >= v)
            if holds != (c == "1"):
                self.fail("C09", "asserted-constraint-violated", "%s: literal b%d (x%d %s %s) is %s but value(x%d) = %s" % (where, b, x, "<=" if op == 0 else ">=", v, "true" if c == "1" else "false", x, xv))
                return False
        self.stats["models"] += 1
        # 3b. requested relations (C11): a decided request literal must agree with the relation on the model
        for j, l in self.lit.items():
            if l[0] == 0:
                continue
            lv = net.lit_value(val, l)
            if lv is None:
                continue
            q = self.case["reqs"][j]
            if q["rel"] == "eq" and lv is False and any(net.lit_value(val, pl) is None for pl in self.parts.get(l[0], [])):
                continue     # negated conjunction with undecided parts: the assignment is still partial, not a model of the literal
            d = ev_lin(l_add(q["l"], q["r"], -1), values)
            if rel_holds(q["rel"], d) != lv:
                self.fail("C11", "new_%s/literal-disagrees-with-model" % q["rel"], "%s: literal of '%s %s %s' is %s but the model gives left-right = %s" % (where, lin_txt(q["l"]), q["rel"], lin_txt(q["r"]), lv, d))
                return False
        # 4. feasibility + bounds contain every real solution
        act = self.active_z(val)
        r = self.zcheckt(act)
        if r == z3.unsat:
            self.fail("C09", "infeasible-accepted", "%s: the asserted constraints are infeasible over the reals but propagation succeeded" % where)
            return False
        cuts = []
        for x, (v, lb, ub) in enumerate(V):
            zx = self.zvar(x)
            if q_fin(lb):
                c = z3.RealVal(str(lb[0]))
                cuts.append(zx <= c if lb[1] > 0 else zx < c)
            if q_fin(ub):
                c = z3.RealVal(str(ub[0]))
                cuts.append(zx >= c if ub[1] < 0 else zx > c)
        if cuts and self.zcheckt(act + [z3.Or(cuts)]) == z3.sat:
            self.fail("C09", "bound-cuts-solution", "%s: some reported bound excludes a real solution of the asserted constraints" % where)
            return False
        # 5. C08: bounds are exactly the tightest among the currently assigned assertions (and the bounds at creation)
        for x, (v, lb, ub) in enumerate(V):
            elb, eub = self.init_bounds.get(x, ((NINF, Z), (PINF, Z)))
            for b, (op, ax, av) in self.asrt.items():
                if ax != x or val[b] == "2":
                    continue
                t = val[b] == "1"
                if op == 0:      # x <= av  | negated: x >= av + eps
                    if t:
                        eub = av if q_lt(av, eub) else eub
                    else:
                        w = (av[0], av[1] + 1)
                        elb = w if q_lt(elb, w) else elb
                else:            # x >= av | negated: x <= av - eps
                    if t:
                        elb = av if q_lt(elb, av) else elb
                    else:
                        w = (av[0], av[1] - 1)
                        eub = w if q_lt(w, eub) else eub
            self.stats["bounds_cmp"] += 1
            from vlib.xnum import q_cmp
            if q_cmp(lb, elb) != 0 or q_cmp(ub, eub) != 0:
                self.fail("C08", "lra-bounds-not-function-of-assigned-literals", "%s: x%d has bounds [%s, %s] but the assigned assertions give [%s, %s]" % (where, x, lb, ub, elb, eub))
                return False
        return True

    # ---- the walk over the trace
    def run(self):
        z3 = self.z3
        tr, case = self.tr, self.case
        idx = 1 + case["nv"]
        dead = False
        last_obs = None
        for st in case["steps"]:
            if st[0] == "req":
                self.hooks(idx)
                last_obs = tr.obs(idx)
                idx += 1
                known_slacks = set(self.slack)
                self.hooks(idx)
                r = tr.res(idx)
                j = st[1]
                q = case["reqs"][j]
                p = net.plit(r)
                self.lit[j] = p
                if q["rel"] == "eq" and p[0] != 0 and p[0] not in self.parts:
                    pts = []
                    for h in tr.hooks(idx, "clause"):
                        ls = [net.plit(x) for x in h["l"]]
                        if len(ls) == 2 and (p[0], not p[1]) in ls:
                            pts += [x for x in ls if x != (p[0], not p[1])]
                    self.parts[p[0]] = pts
                # creation-time bounds of new slacks: interval sum over the bounds observed just before
                V = self.vals(last_obs)
                for x in set(self.slack) - known_slacks:
                    l = self.slack[x]
                    lo, hi = (l[1], Z), (l[1], Z)
                    for v, c in l[0].items():
                        blo, bhi = V[v][1], V[v][2]
                        a, b = (blo, bhi) if c > 0 else (bhi, blo)
                        lo = self.q_addmul(lo, a, c)
                        hi = self.q_addmul(hi, b, c)
                    self.init_bounds[x] = (lo, hi)
                what = "new_%s" % q["rel"]
                if p[0] == 0:
                    self.feats.add("shortcut-const")
                    root = []
                    if not p[1]:    # TRUE
                        if self.zcheck11(root + [self.zreq(j, False)]) == z3.sat:
                            self.fail("C11", what + "/unjustified-true", "'%s %s %s' returned TRUE but the root-level constraints do not entail it" % (lin_txt(q["l"]), q["rel"], lin_txt(q["r"])))
                    else:
                        if self.zcheck11(root + [self.zreq(j, True)]) == z3.sat:
                            self.fail("C11", what + "/unjustified-false", "'%s %s %s' returned FALSE but the root-level constraints do not refute it" % (lin_txt(q["l"]), q["rel"], lin_txt(q["r"])))
                else:
                    self.feats.add("literal")
                    # literal sharing: two requests with the same literal must be equivalent
                    for i, pi in self.lit.items():
                        if i != j and pi[0] == p[0] and pi[0] != 0:
                            same = pi[1] == p[1]
                            self.feats.add("shared-literal")
                            f = self.zreq(i) != self.zreq(j) if same else self.zreq(i) == self.zreq(j)
                            if self.zcheck11([f]) == z3.sat:
                                qi = case["reqs"][i]
                                self.fail("C11", what + "/shared-literal-different-meaning", "'%s %s %s' and '%s %s %s' got the same literal but are not equivalent" % (
                                    lin_txt(qi["l"]), qi["rel"], lin_txt(qi["r"]), lin_txt(q["l"]), q["rel"], lin_txt(q["r"])))
                    # tie the request literal to its relation in the reference model (this is the intended semantics)
                idx += 1
                continue
            self.hooks(idx)
            r = tr.res(idx)
            if st[0] == "unit":
                self.units.append((st[1], st[2]))
                self.s11.add(self.zreq(st[1], st[2]))
                if r is False:
                    dead = True
            elif st[0] == "clause":
                self.s11.add(z3.Or([self.zreq(i, p) for i, p in st[1]]))
                if r is False:
                    dead = True
            else:
                if r is False:
                    dead = True
            idx += 1
            if dead:
                break
        if dead:
            self.feats.add("root-inconsistent")
            if self.s.check() == z3.sat and self.s11.check() == z3.sat:
                self.fail("C09", "root-failure-on-feasible", "the network reported inconsistency at root level but the asserted constraints are feasible")
            return
        self.hooks(idx)
        prev = tr.obs(idx)
        if not self.check_obs(prev, "after construction"):
            return
        idx += 1
        for h in case["hist"]:
            self.hooks(idx)
            self.hooks(idx + 1)
            r = tr.res(idx)
            o = tr.obs(idx + 1)
            idx += 2
            where = "after %s" % (h,)
            if h[0] == "assume":
                if r == "skip-assigned":
                    self.feats.add("skip-assigned")
                elif self.lit[h[1]][0] != 0:
                    refuted = (r is False) or o["lvl"] <= prev["lvl"]
                    pl = self.lit[h[1]]
                    mine = "%sb%d" % ("" if pl[1] == h[2] else "!", pl[0])
                    if refuted:
                        self.feats.add("conflict")
                        decs = [self.zlit(s) for s in prev["dec"]] + [self.zlit(mine)]
                        if self.zcheck(decs) == z3.sat:
                            self.fail("C09", "refuted-feasible", "%s: the assumption was refuted although clauses + asserted constraints + decisions are feasible" % where)
                            return
                    if r is False and o["lvl"] == 0:
                        return
            elif h[0] == "pop" and r is True:
                self.feats.add("pop")
                if len(prev["dec"]) >= 2:
                    self.feats.add("deep-pop")
            if not self.check_obs(o, where):
                return
            prev = o

    @staticmethod
    def q_addmul(acc, b, c):
        """acc + b*c for pairs with infinite b allowed"""
        if is_inf(acc[0]):
            return acc
        if is_inf(b[0]):
            pos = (b[0] == PINF) == (c > 0)
            return (PINF if pos else NINF, Z)
        return (acc[0] + b[0] * c, acc[1] + b[1] * c)


def work(exes, start, n, pop_heavy, owner, scale=1):
    part = common.Partial()
    exe = exes[(start // max(n, 1)) % len(exes)]
    rnd = common.rng("LRA", start, pop_heavy)
    cases = [gen_case(rnd, start + i, pop_heavy=pop_heavy, scale=scale) for i in range(n)]
    traces = net.run_cases(exe, [net.program(c["id"], ops_of(c)) for c in cases])
    for case, tr in zip(cases, traces):
        fp = common.fingerprint([case["nv"], [(q["rel"], lin_txt(q["l"]), lin_txt(q["r"])) for q in case["reqs"]], case["steps"], case["hist"]])
        if tr is None:
            part.inconc("no answer")
            continue
        if isinstance(tr, drv.Crash):
            part.inconc("timeout" if tr.timeout else "abort (owned by C18): " + tr.site())
            continue
        ck = LRAChecker(case, tr)
        try:
            ck.run()
        except (KeyError, IndexError, TypeError):
            import traceback
            part.harness_errors.append("checker error on %s: %s" % (case["id"], traceback.format_exc()[-700:]))
            continue
        nontriv = bool(ck.feats & {"conflict", "pop", "shortcut-const", "shared-literal"})
        part.case(fp, nontriv, {"ops": ops_of(case)[:60]})
        for f in ck.feats:
            part.count("feature:" + f)
        part.count("build:" + ("rel" if "/rel-" in exe else "dbg"))
        part.count("observations checked", ck.stats["obs"])
        part.count("models checked", ck.stats["models"])
        part.count("z3 queries", ck.stats["z3"])
        part.count("learnt clauses validated", ck.stats["lemmas"])
        part.count("theory conflicts validated", ck.stats["tconf"])
        part.count("bound recomputations compared", ck.stats["bounds_cmp"])
        done = set()
        for own, key, d in ck.fails:
            if owner not in own.split(","):
                part.count("failures owned by " + own)
                continue
            if key in done:
                continue
            done.add(key)
            part.violation("lra/" + key, d, {"ops": ops_of(case), "detail": d, "driver": "net_drv"})
    return part.dump()
