"""Planning-level workload families (objects, rules, timelines) shared by C01-C06 and C17."""


def run_families(res, exes, tier, owner):
    return
