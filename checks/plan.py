"""Planning-level workload families (state variables, reusable resources, temporal predicates, rules) shared by C01-C06.
Every failure is tagged with the property that owns it; each property's check reports only its own."""
from fractions import Fraction

from vlib import common, plangen, riddle, solverlib
from vlib.riddle import ev

Z = Fraction(0)
import os
import re

from vlib import build


def example_groups():
    """the hand-written problems shipped with the repository, grouped as the pinned test-suite groups them"""
    groups = []
    cm = os.path.join(build.REPO, "solver", "tests", "CMakeLists.txt")
    try:
        txt = open(cm).read()
    except OSError:
        return groups
    for m in re.finditer(r"add_test\(NAME (\S+) COMMAND solver_tests (.*?) WORKING_DIRECTORY", txt):
        files = [f.strip('"').replace("${CMAKE_SOURCE_DIR}", build.REPO) for f in m.group(2).split() if f.endswith('.rddl"')]
        if files and all(os.path.exists(f) for f in files):
            groups.append((m.group(1), files))
    return groups


def gen_example(rnd, idx):
    groups = example_groups()
    if not groups:
        return {"family": "examples", "id": "ex-none", "text": "real x;\n", "planted": False}
    name, files = groups[idx % len(groups)]
    texts = [open(f).read() for f in files]
    return {"family": "examples", "id": "ex-" + name, "text": "\n".join(texts), "texts": texts, "planted": False, "example": name}


GEN = {"task": plangen.gen_task, "sync": plangen.gen_sync, "cyc": plangen.gen_cyc, "sx": plangen.gen_sx, "sv": plangen.gen_sv, "rr": plangen.gen_rr, "tl": plangen.gen_tl, "rules": plangen.gen_rules, "examples": gen_example}
# which families each property runs (the others' failures are counted, not reported)
FAMILIES = {"C01": ["sv", "rr", "rules", "sx", "sync", "tl"], "C02": ["sv", "rr", "rules", "sx", "cyc", "sync", "task"], "C03": ["rules", "sv", "cyc", "task", "tl", "examples"], "C04": ["sv", "sx", "sync", "task", "examples"], "C05": ["rr", "sx", "task", "examples"],
            "C06": ["tl", "sv", "rr", "sx", "sync", "task", "examples"],
            "C16": ["sv", "rr", "tl", "rules", "sx", "cyc", "sync", "task"]}


def fr(v):
    return str(v[0]) + ("" if v[1] == 0 else "%+deps" % v[1])


class Plan:
    """the solution JSON seen as a plan"""

    def __init__(self, out):
        self.sol = solverlib.Solution(out.post)
        self.atoms = list(self.sol.atoms.values())
        self.origin = self.sol.lookup(["origin"])
        self.horizon = self.sol.lookup(["horizon"])
        self.names = {}
        for n, e in self.sol.top.items():
            if isinstance(e["value"], int):
                self.names[e["value"]] = n

    def par(self, atom, name):
        for p in atom["pars"]:
            if p["name"] == name:
                return self.sol._value(p)
        return None

    def active(self):
        return [a for a in self.atoms if a["state"] == "Active"]


def interval_preds(case_text):
    """predicates that extend Interval / Impulse, by name, from the program text (smart-type predicates included)"""
    return None


def check_c06(case, plan, out):
    fails = []
    n = 0
    for a in plan.active():
        names = {p["name"] for p in a["pars"]}
        if {"start", "end"} <= names:
            n += 1
            s, e = plan.par(a, "start"), plan.par(a, "end")
            d = plan.par(a, "duration")
            kind = "fact-or-goal"
            where = "%s atom of %s" % (a["state"], a["predicate"])
            if not (plan.origin <= s):
                fails.append(("C06", "interval/start-before-origin/" + a["predicate"].split(".")[-1], "%s has start %s < origin %s" % (where, fr(s), fr(plan.origin))))
            if not (s <= e):
                fails.append(("C06", "interval/end-before-start/" + a["predicate"].split(".")[-1], "%s has start %s > end %s" % (where, fr(s), fr(e))))
            if not (e <= plan.horizon):
                fails.append(("C06", "interval/end-after-horizon/" + a["predicate"].split(".")[-1], "%s has end %s > horizon %s" % (where, fr(e), fr(plan.horizon))))
            if d is not None:
                if (d[0], d[1]) != (e[0] - s[0], e[1] - s[1]) or d < (Z, Z):
                    fails.append(("C06", "interval/duration/" + a["predicate"].split(".")[-1], "%s has duration %s but end - start = %s" % (where, fr(d), fr((e[0] - s[0], e[1] - s[1])))))
        elif "at" in names:
            n += 1
            t = plan.par(a, "at")
            if not (plan.origin <= t <= plan.horizon):
                fails.append(("C06", "impulse/outside-origin-horizon/" + a["predicate"].split(".")[-1], "Active impulse atom of %s has at = %s outside [%s, %s]" % (a["predicate"], fr(t), fr(plan.origin), fr(plan.horizon))))
    return fails, n


def atoms_by_instance(plan, type_pred):
    """Active atoms grouped by the (single) instance their tau designates; atoms whose tau still has several values are returned separately"""
    groups, multi = {}, []
    for a in plan.active():
        tau = plan.par(a, "tau")
        if tau is None or not type_pred(a):
            continue
        if isinstance(tau, frozenset):
            multi.append(a)
            continue
        groups.setdefault(tau, []).append(a)
    return groups, multi


def tau_in(plan, a, ids):
    t = plan.par(a, "tau")
    if isinstance(t, frozenset):
        return bool(t & ids)
    return t in ids


def check_c04(case, plan, out):
    fails = []
    sv_ids = {t["id"] for t in (out.timelines or []) if t.get("type") == "StateVariable"}
    # state-variable atoms: generated classes are called SVn; for the shipped examples the instances are those the solver lists as StateVariable timelines
    groups, multi = atoms_by_instance(plan, lambda a: "start" in {p["name"] for p in a["pars"]} and (a["predicate"].startswith("SV") or tau_in(plan, a, sv_ids)))
    pairs = 0
    for inst, atoms in groups.items():
        for i in range(len(atoms)):
            for j in range(i + 1, len(atoms)):
                a, b = atoms[i], atoms[j]
                s1, e1, s2, e2 = plan.par(a, "start"), plan.par(a, "end"), plan.par(b, "start"), plan.par(b, "end")
                pairs += 1
                if max(s1, s2) < min(e1, e2):
                    fails.append(("C04", "overlap-on-state-variable", "atoms %s [%s, %s) and %s [%s, %s) on state variable %s overlap" % (
                        a["predicate"], fr(s1), fr(e1), b["predicate"], fr(s2), fr(e2), plan.names.get(inst, inst))))
    # the extracted timeline: at most one atom per segment, and the segments agree with the atoms
    segs = 0
    for t in out.timelines or []:
        if t.get("type") != "StateVariable":
            continue
        for v in t["values"]:
            segs += 1
            if len(v["atoms"]) > 1:
                fails.append(("C04", "timeline-segment-with-several-atoms", "timeline of %s has %d atoms in segment [%s, %s)" % (t.get("name"), len(v["atoms"]), fr(solverlib.rat(v["from"])), fr(solverlib.rat(v["to"])))))
            f, to = solverlib.rat(v["from"]), solverlib.rat(v["to"])
            exp = sorted(a["id"] for a in groups.get(t["id"], []) if plan.par(a, "start") <= f and to <= plan.par(a, "end") and f < to)
            exp_multi = [a["id"] for a in multi]
            got = sorted(x for x in v["atoms"] if x not in exp_multi)
            if f < to and got != exp:
                fails.append(("C04", "timeline-disagrees-with-atoms", "timeline of %s lists %s in [%s, %s) but the active atoms covering it are %s" % (t.get("name"), got, fr(f), fr(to), exp)))
    return fails, pairs, segs


def check_c05(case, plan, out):
    fails = []
    groups, multi = atoms_by_instance(plan, lambda a: a["predicate"].endswith("Use"))
    instants = 0
    for inst, atoms in groups.items():
        cap = None
        for t in out.timelines or []:
            if t["id"] == inst and "capacity" in t:
                cap = solverlib.rat(t["capacity"])
        f = plan.sol.fields_of(inst)
        if "capacity" in f:
            cap2 = plan.sol._value(f["capacity"])
            if cap is not None and cap != cap2:
                fails.append(("C05", "timeline-capacity-differs", "timeline capacity %s differs from the instance's capacity %s" % (fr(cap), fr(cap2))))
            cap = cap2
        if cap is None:
            continue
        for a in atoms:
            t0 = plan.par(a, "start")
            if not (t0 < plan.par(a, "end")):
                continue
            instants += 1
            tot = (Z, Z)
            cover = []
            for b in atoms:
                if plan.par(b, "start") <= t0 < plan.par(b, "end"):
                    am = plan.par(b, "amount")
                    tot = (tot[0] + am[0], tot[1] + am[1])
                    cover.append((fr(plan.par(b, "start")), fr(plan.par(b, "end")), fr(am)))
            if tot > cap:
                fails.append(("C05", "usage-exceeds-capacity", "at time %s the active Use atoms on %s need %s > capacity %s: %s" % (fr(t0), plan.names.get(inst, inst), fr(tot), fr(cap), cover)))
    segs = 0
    for t in out.timelines or []:
        if t.get("type") != "ReusableResource":
            continue
        for v in t["values"]:
            f, to = solverlib.rat(v["from"]), solverlib.rat(v["to"])
            if not f < to:
                continue
            segs += 1
            tot = (Z, Z)
            for b in groups.get(t["id"], []):
                if plan.par(b, "start") <= f and to <= plan.par(b, "end"):
                    am = plan.par(b, "amount")
                    tot = (tot[0] + am[0], tot[1] + am[1])
            got = solverlib.rat(v["usage"])
            if not multi and got != tot:
                fails.append(("C05", "timeline-usage-differs", "timeline of %s reports usage %s in [%s, %s) but the covering active atoms sum to %s" % (t.get("name"), fr(got), fr(f), fr(to), fr(tot))))
    return fails, instants, segs


def check_c03(case, plan, out):
    """causal structure from the listener graph: every in-plan flaw resolved, unifications well-formed, rule sub-goals present, no cycle"""
    fails = []
    g = out.graph
    if not g:
        return fails, 0
    flaws = {f["id"]: f for f in g["flaws"]}
    ress = {r["id"]: r for r in g["resolvers"]}
    atom_flaw = {}
    for f in g["flaws"]:
        d = f["data"]
        if d.get("type") in ("fact", "goal"):
            atom_flaw[d["atom"]] = f
    checked = 0
    edges = {}
    for f in g["flaws"]:
        d = f["data"]
        if f["phi_val"] != "T":
            continue
        checked += 1
        true_res = [ress[r] for r in f["resolvers"] if ress[r]["rho_val"] == "T"]
        kind = d.get("type")
        if not f["expanded"]:
            fails.append(("C03", "in-plan-flaw-not-expanded/" + str(kind), "a flaw of type %s is in the plan (phi true) but was never expanded" % kind))
            continue
        if not true_res:
            fails.append(("C03", "in-plan-flaw-without-resolver/" + str(kind), "a flaw of type %s is in the plan (phi true) but none of its resolvers is" % kind))
            continue
        if kind in ("fact", "goal", "bool", "enum") and len(true_res) > 1:
            fails.append(("C03", "exclusive-flaw-with-several-resolvers/" + str(kind), "an exclusive flaw of type %s has %d active resolvers" % (kind, len(true_res))))
        if kind in ("fact", "goal"):
            atom = plan.sol.atoms.get(d["atom"])
            if atom is None:
                continue
            r = true_res[0]
            rt = r["data"].get("type")
            if rt == "unify":
                tgt = plan.sol.atoms.get(int(r["data"]["target"]))
                if atom["state"] != "Unified":
                    fails.append(("C03", "unify-resolver-but-atom-not-unified", "atom of %s is solved by unification but its state is %s" % (atom["predicate"], atom["state"])))
                if tgt is None or tgt["state"] != "Active":
                    fails.append(("C03", "unified-with-non-active-atom", "atom of %s is unified with an atom whose state is %s" % (atom["predicate"], tgt and tgt["state"])))
                elif tgt["predicate"] != atom["predicate"]:
                    fails.append(("C03", "unified-with-other-predicate", "atom of %s is unified with an atom of %s" % (atom["predicate"], tgt["predicate"])))
                else:
                    for p in atom["pars"]:
                        a, b = plan.par(atom, p["name"]), plan.par(tgt, p["name"])
                        if a != b:
                            fails.append(("C03", "unified-atoms-differ-in-argument", "atom of %s is unified with an atom whose argument %s is %s instead of %s" % (atom["predicate"], p["name"], b, a)))
                            break
                    edges.setdefault(d["atom"], []).append(int(r["data"]["target"]))
            elif rt == "activate":
                if atom["state"] != "Active":
                    fails.append(("C03", "activate-resolver-but-atom-not-active", "atom of %s is solved by activation but its state is %s" % (atom["predicate"], atom["state"])))
                # sub-goals demanded by the rule (reference: the generator's rule table)
                children = [c for c in g["flaws"] if r["id"] in c["causes"]]
                child_atoms = [c["data"] for c in children if c["data"].get("type") in ("fact", "goal")]
                for c in child_atoms:
                    edges.setdefault(d["atom"], []).append(c["atom"])
                if kind == "goal" and case.get("preds") and atom["predicate"] in case["preds"]:
                    spec = case["preds"][atom["predicate"]]
                    want = sorted(s["pred"] for s in spec["subs"])
                    got = sorted(c["predicate"] for c in child_atoms)
                    if spec["disj"] is None and want != got:
                        fails.append(("C03", "rule-subgoals-missing", "active goal of %s has sub-goals %s, its rule demands %s" % (atom["predicate"], got, want)))
                    for c in children:
                        if c["phi_val"] != "T":
                            fails.append(("C03", "subgoal-of-active-goal-not-in-plan", "a sub-goal (%s) of an active goal of %s is not in the plan" % (c["data"].get("predicate", c["data"].get("type")), atom["predicate"])))
            # state consistency
        # atoms whose flaw is in plan must not be Inactive
    for a in plan.atoms:
        f = atom_flaw.get(a["id"])
        if f and f["phi_val"] == "T" and a["state"] == "Inactive":
            fails.append(("C03", "required-atom-unjustified", "an atom of %s is required by the plan (its flaw is active) but is neither active nor unified" % a["predicate"]))
    # acyclicity of support over ALL in-plan flaws (goal -> disjunction -> sub-goal ..., unified -> target): flaw -> the flaws its active
    # resolvers give rise to or rest on
    edges = {}
    for f in g["flaws"]:
        if f["phi_val"] != "T":
            continue
        for rid in f["resolvers"]:
            r = ress[rid]
            if r["rho_val"] != "T":
                continue
            for c in g["flaws"]:
                if rid in c["causes"] and c["phi_val"] == "T":
                    edges.setdefault(f["id"], []).append(c["id"])
            for c in r.get("preconditions") or []:
                if c in flaws and flaws[c]["phi_val"] == "T":
                    edges.setdefault(f["id"], []).append(c)
            if r["data"].get("type") == "unify":
                t = atom_flaw.get(int(r["data"]["target"]))
                if t is not None:
                    edges.setdefault(f["id"], []).append(t["id"])
    color = {}

    def dfs(u, stack):
        color[u] = 1
        for v in edges.get(u, []):
            if color.get(v) == 1:
                return stack + [u, v]
            if color.get(v) is None:
                r = dfs(v, stack + [u])
                if r:
                    return r
        color[u] = 2
        return None
    for u in list(edges):
        if color.get(u) is None:
            cyc = dfs(u, [])
            if cyc:
                k = cyc.index(cyc[-1])
                names = [flaws[x]["data"].get("predicate") or flaws[x]["data"].get("type") for x in cyc[k:]]
                fails.append(("C03", "cyclic-causal-support", "the support relation of the reported plan has a cycle: " + " -> ".join(str(n) for n in names)))
                break
    return fails, checked


def check_rules_c01(case, plan, out):
    """C01 on rule bodies: for every Active goal of a generated predicate, the rule's constraints evaluated with the atom's arguments (sub-goals bound
    through the causal graph, in creation order)"""
    fails = []
    n = 0
    g = out.graph
    if not g or "preds" not in case:
        return fails, 0
    ress = {r["id"]: r for r in g["resolvers"]}
    for f in g["flaws"]:
        d = f["data"]
        if d.get("type") != "goal" or f["phi_val"] != "T":
            continue
        atom = plan.sol.atoms.get(d["atom"])
        if atom is None or atom["state"] != "Active" or atom["predicate"] not in case["preds"]:
            continue
        spec = case["preds"][atom["predicate"]]
        act = [ress[r] for r in f["resolvers"] if ress[r]["rho_val"] == "T" and ress[r]["data"].get("type") == "activate"]
        if not act:
            continue
        children = sorted((c for c in g["flaws"] if act[0]["id"] in c["causes"] and c["data"].get("type") in ("fact", "goal")), key=lambda c: c["order"])
        env = {}
        for p in atom["pars"]:
            env[p["name"]] = plan.sol._value(p)
        if spec["disj"] is None and len(children) == len(spec["subs"]):
            for s, c in zip(spec["subs"], children):
                ca = plan.sol.atoms.get(c["data"]["atom"])
                if ca:
                    for p in ca["pars"]:
                        env[s["name"] + "." + p["name"]] = plan.sol._value(p)
                    # the argument passed to the sub-goal
                    argn = case["preds"].get(s["pred"], {}).get("argname", "x")
                    try:
                        want = ev(s["arg"], env)
                        got = env.get(s["name"] + "." + argn)
                        n += 1
                        if got is not None and want != got:
                            fails.append(("C01", "rules/subgoal-argument", "sub-goal %s of an active %s was created with %s = %s, the rule says %s = %s" % (s["name"], atom["predicate"], argn, got, riddle.show(s["arg"]), want)))
                    except (riddle.Unknown, KeyError):
                        pass
        for c in spec["cons"]:
            try:
                v = ev(c, env)
            except (riddle.Unknown, KeyError):
                continue
            n += 1
            if v is not True:
                fails.append(("C01", "rules/rule-constraint-" + ("false" if v is False else "undetermined"), "active goal of %s: rule constraint %s evaluates to %s with %s" % (atom["predicate"], riddle.show(c), v, {k: str(x) for k, x in env.items() if not isinstance(x, (int, frozenset))})))
    return fails, n


def sx_truth(spec, unify):
    """z3 ground truth for the unplanted scheduling family.  unify=False: every atom is active (a model is certainly a solution);
    unify=True: a goal or a fact may also be unified with an active atom of the same predicate with equal arguments (an upper bound on what can be solved)"""
    import z3
    q = lambda f: z3.RealVal(str(f))
    s = z3.Solver()
    s.set("timeout", 10000)
    origin, horizon = z3.Real("origin"), z3.Real("horizon")
    s.add(origin >= 0, horizon >= origin, horizon <= q(spec["horizon"]))
    A = spec["atoms"]
    n = len(A)
    st = [z3.Real("s%d" % i) for i in range(n)]
    en = [z3.Real("e%d" % i) for i in range(n)]
    tau = [z3.Int("t%d" % i) for i in range(n)]
    act = [z3.Bool("act%d" % i) for i in range(n)]
    for i, a in enumerate(A):
        s.add(st[i] >= origin, en[i] <= horizon, en[i] - st[i] >= q(a["dur_ge"]), z3.Or([tau[i] == k for k in a["insts"]]))
        if a["start_eq"] is not None:
            s.add(st[i] == q(a["start_eq"]), en[i] == q(a["end_eq"]))
        if a["dur_eq"] is not None:
            s.add(en[i] - st[i] == q(a["dur_eq"]))
        if a["lo"] is not None:
            s.add(st[i] >= q(a["lo"]), en[i] <= q(a["hi"]))
        if not unify:       # (facts may be unified with an equal atom just like goals)
            s.add(act[i])
        else:
            alts = [act[i]]
            for j, b in enumerate(A):
                if j != i and b["pred"] == a["pred"] and b["type"] == a["type"] and b["arg"] == a["arg"]:
                    alts.append(z3.And(z3.Not(act[i]), act[j], st[i] == st[j], en[i] == en[j], tau[i] == tau[j]))
            s.add(z3.Or(alts))
    for i, j in spec["prec"]:
        s.add(en[i] <= st[j])
    for i, a in enumerate(A):
        for j, b in enumerate(A):
            if j <= i or a["type"] != "sv" or b["type"] != "sv":
                continue
            s.add(z3.Or(z3.Not(act[i]), z3.Not(act[j]), tau[i] != tau[j], en[i] <= st[j], en[j] <= st[i]))
    for i, a in enumerate(A):
        if a["type"] != "rr":
            continue
        for k in a["insts"]:
            cap = spec["insts"][k]["cap"]
            load = z3.Sum([z3.If(z3.And(act[j], tau[j] == k, st[j] <= st[i], st[i] < en[j]), q(b["arg"]), q(0)) for j, b in enumerate(A) if b["type"] == "rr"])
            s.add(z3.Implies(z3.And(act[i], tau[i] == k), load <= q(cap)))
    r = s.check()
    return "sat" if r == z3.sat else ("unsat" if r == z3.unsat else "unknown")


def check_rule_table(case, plan, out):
    """C01 on rule bodies, table form: constraints a predicate's rule puts on the parameters of every active GOAL of that predicate"""
    fails, n = [], 0
    table = case.get("rule_table")
    g = out.graph
    if not table or not g:
        return fails, 0
    goal_atoms = {f["data"]["atom"] for f in g["flaws"] if f["data"].get("type") == "goal"}
    # sub-goals / facts the rule of an active goal must have created (children of the goal's activating resolver in the causal graph)
    sub = case.get("subgoal_table") or {}
    ress = {r["id"]: r for r in g["resolvers"]}
    for f in g["flaws"]:
        d = f["data"]
        if d.get("type") != "goal" or f["phi_val"] != "T":
            continue
        atom = plan.sol.atoms.get(d["atom"])
        pname = atom["predicate"].split(":")[-1] if atom else None       # (the listener's flaw data carries unqualified predicate names)
        if atom is None or atom["state"] != "Active" or pname not in sub:
            continue
        act = [ress[r] for r in f["resolvers"] if ress[r]["rho_val"] == "T" and ress[r]["data"].get("type") == "activate"]
        if not act:
            continue
        kids = sorted(c["data"].get("predicate") for c in g["flaws"] if act[0]["id"] in c["causes"] and c["data"].get("type") in ("fact", "goal"))
        n += 1
        if kids != sorted(sub[pname]):
            fails.append(("C03", "rule-subgoals-missing/" + pname, "active goal of %s: its rule creates %s but the plan has %s below it" % (atom["predicate"], sorted(sub[pname]), kids)))
    for a in plan.atoms:
        if a["state"] != "Active" or a["id"] not in goal_atoms or a["predicate"] not in table:
            continue
        env = {p["name"]: plan.sol._value(p) for p in a["pars"]}
        for c in table[a["predicate"]]:
            try:
                v = ev(c, env)
            except (riddle.Unknown, KeyError, TypeError):
                continue
            n += 1
            if v is not True:
                fails.append(("C01", "rules/rule-constraint-" + ("false" if v is False else "undetermined") + "/" + a["predicate"], "active goal of %s: its rule demands %s but the solution has %s" % (a["predicate"], riddle.show(c), {k: str(x) for k, x in env.items() if k in ("start", "end", "duration", "at")})))
    return fails, n


def work(exes, family, start, n, owner):
    part = common.Partial()
    rnd = common.rng("PLAN", family, start)
    names = sorted(exes)
    for i in range(n):
        case = GEN[family](rnd, start + i)
        variant = names[(start + i) % len(names)]
        if case.get("parts") and (start + i) % 4 == 3:
            # the requirements arrive in two scripts with a solve() in between (read at root level, as the ROS executor does)
            out = solverlib.run_probe(exes[variant], case["parts"], timeout=10.0, incremental=True)
            part.count("%s: programs read incrementally" % family)
        else:
            out = solverlib.run_probe(exes[variant], case.get("texts") or [case["text"]], timeout=10.0 if family == "sx" else 30.0)
        fp = common.fingerprint(case["text"])
        st = out.status
        if st == "timeout":
            part.inconc("timeout (search budget) in family " + family)
            continue
        if st == "crash":
            part.inconc("abort (owned by C18): " + out.crash.site())
            continue
        part.count("%s: programs (%s)" % (family, variant))
        part.count("%s: outcome %s" % (family, st))
        fails = []
        nontriv = False
        if st == "solved":
            try:
                plan = Plan(out)
            except (KeyError, TypeError) as ex:
                part.harness_errors.append("cannot read the solution of %s: %r" % (case["id"], ex))
                continue
            f6, n6 = check_c06(case, plan, out)
            part.count("C06: temporal atoms checked", n6)
            fails += f6
            f4, pairs, segs = check_c04(case, plan, out)
            part.count("C04: atom pairs on one state variable compared", pairs)
            part.count("C04: timeline segments compared", segs)
            fails += f4
            f5, inst, segs5 = check_c05(case, plan, out)
            part.count("C05: instants summed", inst)
            part.count("C05: timeline segments compared", segs5)
            fails += f5
            f3, nf = check_c03(case, plan, out)
            part.count("C03: in-plan flaws checked", nf)
            fails += f3
            f1, n1 = check_rules_c01(case, plan, out)
            f1b, n1b = check_rule_table(case, plan, out)
            n1 += n1b
            part.count("C01: rule constraints / sub-goal arguments evaluated", n1)
            fails += f1 + f1b
            if "spec" in case and owner == "C01":
                t = sx_truth(case["spec"], True)
                part.count("sx: z3 ground truth (unification allowed) " + t)
                if t == "unsat":
                    fails.append(("C01", "sx/solution-of-an-unschedulable-problem", "solve() returned true but the problem has no schedule at all (z3, unification allowed)"))
            nontriv = {"C04": pairs > 0, "C05": inst > 0, "C06": n6 > 0, "C03": nf > 1, "C01": n1 > 0 or n6 > 0, "C02": True}.get(owner, True)
            if out.graph and any(r["data"].get("type") == "unify" and r["rho_val"] == "T" for r in out.graph["resolvers"]):
                part.count("%s: solutions with an active unification" % family)
            if any(len(t["values"]) > 2 for t in (out.timelines or [])):
                part.count("%s: solutions with multi-segment timelines" % family)
        else:
            msg = out.read_error or out.solve_error or ""
            if case.get("planted") and case.get("derate") and (st == "unsolvable" or "unsolvable" in msg or "inconsistent" in msg):
                # recorded finding K4: only problems whose resource capacity is a non-constant expression, only the configurations that check
                # inconsistencies at every step; anything else keeps the general key below
                fails.append(("C02", "task/non-constant-capacity-declared-unsolvable" if "-on-" in variant else "task/planted-problem-declared-unsolvable",
                              "a problem whose resource capacity is '<constant> - reserve' was built around a feasible plan but is declared unsolvable (%s) in configuration %s" % (msg or st, variant)))
            elif case.get("planted") and (st == "unsolvable" or "unsolvable" in msg or "inconsistent" in msg):
                fails.append(("C02", "%s/planted-problem-declared-unsolvable" % family, "the problem was built around a feasible plan but is declared unsolvable (%s)" % (msg or st)))
            elif "spec" in case and (st == "unsolvable" or "unsolvable" in msg or "inconsistent" in msg):
                if owner == "C02":
                    t = sx_truth(case["spec"], False)
                    part.count("sx: z3 ground truth (all atoms active) for an 'unsolvable' verdict: " + t)
                    if t == "sat":
                        fails.append(("C02", "sx/schedulable-problem-declared-unsolvable", "the problem is declared unsolvable (%s) but z3 finds a schedule with every atom active" % (msg or st)))
                    elif t == "unknown":
                        part.inconc("z3 unknown")
            elif st in ("read-error", "solve-error"):
                part.count("%s: rejected with another error: %s" % (family, msg[:50]))
                if family != "examples" and "unsolvable" not in msg and "inconsistent" not in msg:       # (an unplanted problem may well be inconsistent)
                    import re
                    fails.append(("C16", "%s/valid-program-rejected/%s" % (family, re.sub(r"\[\d+, \d+\] ", "", msg)[:60]), "a valid generated planning problem is rejected with an error: " + msg))
            nontriv = owner == "C02"
        part.case(fp, nontriv, {"program": case["text"][:1500], "variant": variant, "outcome": st})
        done = set()
        for own, key, detail in fails:
            if own != owner:
                part.count("failures owned by " + own)
                continue
            if key in done:
                continue
            done.add(key)
            part.violation(key, detail, {"program": case["text"], "variant": variant, "detail": detail})
    return part.dump()


def run_families(res, exes, tier, owner):
    fams = FAMILIES.get(owner, [])
    total = 800 if tier == "quick" else 20000
    per = 10 if tier == "quick" else 25
    for fam in fams:
        if fam == "examples":
            ng = len(example_groups())
            n = ng if tier == "quick" else ng * len(exes)      # thorough: every example in every configuration
            common.pmap(work, [(exes, fam, s, 4, owner) for s in range(0, n, 4)], res)
        else:
            common.pmap(work, [(exes, fam, s, per, owner) for s in range(0, total, per)], res)
