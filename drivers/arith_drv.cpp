// C15 driver: evaluates one operator form per input line on the real rational / inf_rational / lin classes.
// Input : <form> <operand> [<operand>]          (operands: I = integer, R = n/d, Q = n/d,n/d, L = k;v:c;v:c...)
// Output: one line per input line: "= <result>" ; results are printed from numerator()/denominator() (raw, not to_string).
#include "rational.h"
#include "inf_rational.h"
#include "lin.h"
#include <iostream>
#include <sstream>
#include <string>
#include <vector>
#include <functional>
#include <map>

using namespace smt;

static I pI(const std::string &s) { return std::stol(s); }
static rational pR(const std::string &s)
{
    auto p = s.find('/');
    if (p == std::string::npos)
        return rational(pI(s));
    return rational(pI(s.substr(0, p)), pI(s.substr(p + 1)));
}
static inf_rational pQ(const std::string &s)
{
    auto p = s.find(',');
    if (p == std::string::npos)
        return inf_rational(pR(s));
    return inf_rational(pR(s.substr(0, p)), pR(s.substr(p + 1)));
}
static lin pL(const std::string &s)
{
    std::vector<std::string> parts;
    std::stringstream ss(s);
    std::string it;
    while (std::getline(ss, it, ';'))
        parts.push_back(it);
    lin l(pR(parts.at(0)));
    for (size_t i = 1; i < parts.size(); ++i)
    {
        auto p = parts[i].find(':');
        l.vars.emplace(static_cast<var>(std::stoul(parts[i].substr(0, p))), pR(parts[i].substr(p + 1)));
    }
    return l;
}
static std::string sR(const rational &r) { return std::to_string(r.numerator()) + "/" + std::to_string(r.denominator()); }
static std::string sQ(const inf_rational &q) { return sR(q.get_rational()) + "," + sR(q.get_infinitesimal()); }
static std::string sB(bool b) { return b ? "1" : "0"; }
static std::string sL(const lin &l)
{
    std::string s = sR(l.known_term);
    for (const auto &[v, c] : l.vars)
        s += ";" + std::to_string(v) + ":" + sR(c);
    return s;
}

using fn = std::function<std::string(const std::string &, const std::string &)>;

int main()
{
    std::map<std::string, fn> F;
#define CMP(T, U, pa, pb, tag)                                                                         \
    F["ne_" tag] = [](auto &a, auto &b) { return sB(pa(a) != pb(b)); };                                \
    F["lt_" tag] = [](auto &a, auto &b) { return sB(pa(a) < pb(b)); };                                 \
    F["le_" tag] = [](auto &a, auto &b) { return sB(pa(a) <= pb(b)); };                                \
    F["eq_" tag] = [](auto &a, auto &b) { return sB(pa(a) == pb(b)); };                                \
    F["ge_" tag] = [](auto &a, auto &b) { return sB(pa(a) >= pb(b)); };                                \
    F["gt_" tag] = [](auto &a, auto &b) { return sB(pa(a) > pb(b)); };
    CMP(rational, rational, pR, pR, "RR")
    CMP(rational, I, pR, pI, "RI")
    CMP(inf_rational, inf_rational, pQ, pQ, "QQ")
    CMP(inf_rational, rational, pQ, pR, "QR")
    CMP(inf_rational, I, pQ, pI, "QI")
#define BIN(name, op, pa, pb, sr, tag) F[name "_" tag] = [](auto &a, auto &b) { return sr(pa(a) op pb(b)); };
#define CMPD(name, op, pa, pb, sr, tag) \
    F[name "_" tag] = [](auto &a, auto &b) { auto x = pa(a); auto &y = (x op pb(b)); return sr(y) + " " + sr(x); };
    // rational
    BIN("add", +, pR, pR, sR, "RR") BIN("sub", -, pR, pR, sR, "RR") BIN("mul", *, pR, pR, sR, "RR") BIN("div", /, pR, pR, sR, "RR")
    BIN("add", +, pR, pI, sR, "RI") BIN("sub", -, pR, pI, sR, "RI") BIN("mul", *, pR, pI, sR, "RI") BIN("div", /, pR, pI, sR, "RI")
    BIN("add", +, pI, pR, sR, "IR") BIN("sub", -, pI, pR, sR, "IR") BIN("mul", *, pI, pR, sR, "IR") BIN("div", /, pI, pR, sR, "IR")
    CMPD("iadd", +=, pR, pR, sR, "RR") CMPD("isub", -=, pR, pR, sR, "RR") CMPD("imul", *=, pR, pR, sR, "RR") CMPD("idiv", /=, pR, pR, sR, "RR")
    CMPD("iadd", +=, pR, pI, sR, "RI") CMPD("isub", -=, pR, pI, sR, "RI") CMPD("imul", *=, pR, pI, sR, "RI") CMPD("idiv", /=, pR, pI, sR, "RI")
    F["neg_R"] = [](auto &a, auto &) { return sR(-pR(a)); };
    F["ctor_R"] = [](auto &a, auto &) { return sR(pR(a)); };
    F["ctor_I"] = [](auto &a, auto &) { return sR(rational(pI(a))); };
    F["str_R"] = [](auto &a, auto &) { return to_string(pR(a)); };
    F["pred_R"] = [](auto &a, auto &) { auto r = pR(a); return sB(is_integer(r)) + sB(is_zero(r)) + sB(is_positive(r)) + sB(is_positive_or_zero(r)) + sB(is_negative(r)) + sB(is_negative_or_zero(r)) + sB(is_infinite(r)) + sB(is_positive_infinite(r)) + sB(is_negative_infinite(r)); };
    // inf_rational
    BIN("add", +, pQ, pQ, sQ, "QQ") BIN("sub", -, pQ, pQ, sQ, "QQ")
    BIN("add", +, pQ, pR, sQ, "QR") BIN("sub", -, pQ, pR, sQ, "QR") BIN("mul", *, pQ, pR, sQ, "QR") BIN("div", /, pQ, pR, sQ, "QR")
    BIN("add", +, pQ, pI, sQ, "QI") BIN("sub", -, pQ, pI, sQ, "QI") BIN("mul", *, pQ, pI, sQ, "QI") BIN("div", /, pQ, pI, sQ, "QI")
    BIN("add", +, pR, pQ, sQ, "RQ") BIN("sub", -, pR, pQ, sQ, "RQ") BIN("mul", *, pR, pQ, sQ, "RQ")
    BIN("add", +, pI, pQ, sQ, "IQ") BIN("sub", -, pI, pQ, sQ, "IQ") BIN("mul", *, pI, pQ, sQ, "IQ")
    CMPD("iadd", +=, pQ, pQ, sQ, "QQ") CMPD("isub", -=, pQ, pQ, sQ, "QQ")
    CMPD("iadd", +=, pQ, pR, sQ, "QR") CMPD("isub", -=, pQ, pR, sQ, "QR") CMPD("imul", *=, pQ, pR, sQ, "QR") CMPD("idiv", /=, pQ, pR, sQ, "QR")
    CMPD("iadd", +=, pQ, pI, sQ, "QI") CMPD("isub", -=, pQ, pI, sQ, "QI") CMPD("imul", *=, pQ, pI, sQ, "QI") CMPD("idiv", /=, pQ, pI, sQ, "QI")
    F["neg_Q"] = [](auto &a, auto &) { return sQ(-pQ(a)); };
    F["pred_Q"] = [](auto &a, auto &) { auto r = pQ(a); return sB(is_zero(r)) + sB(is_positive(r)) + sB(is_positive_or_zero(r)) + sB(is_negative(r)) + sB(is_negative_or_zero(r)) + sB(is_infinite(r)) + sB(is_positive_infinite(r)) + sB(is_negative_infinite(r)); };
    // lin (compound operators return a copy: both the returned value and the updated object are printed)
    BIN("add", +, pL, pL, sL, "LL") BIN("sub", -, pL, pL, sL, "LL")
    BIN("add", +, pL, pR, sL, "LR") BIN("sub", -, pL, pR, sL, "LR") BIN("mul", *, pL, pR, sL, "LR") BIN("div", /, pL, pR, sL, "LR")
    BIN("add", +, pR, pL, sL, "RL") BIN("sub", -, pR, pL, sL, "RL") BIN("mul", *, pR, pL, sL, "RL")
#define CMPL(name, op, pb, tag) \
    F[name "_" tag] = [](auto &a, auto &b) { auto x = pL(a); auto y = (x op pb(b)); return sL(y) + " " + sL(x); };
    CMPL("iadd", +=, pL, "LL") CMPL("isub", -=, pL, "LL")
    CMPL("iadd", +=, pR, "LR") CMPL("isub", -=, pR, "LR") CMPL("imul", *=, pR, "LR") CMPL("idiv", /=, pR, "LR")
    F["neg_L"] = [](auto &a, auto &) { return sL(-pL(a)); };

    std::string line;
    while (std::getline(std::cin, line))
    {
        std::stringstream ss(line);
        std::string form, a, b;
        ss >> form >> a >> b;
        if (form == "forms")
        {
            for (const auto &f : F)
                std::cout << f.first << ' ';
            std::cout << std::endl;
            continue;
        }
        auto it = F.find(form);
        if (it == F.end())
        {
            std::cout << "! unknown form" << std::endl;
            continue;
        }
        std::cout << "= " << it->second(a, b) << std::endl; // flushed: the runner attributes a crash to the first unanswered line
    }
    return 0;
}
