// C19 driver: executes a solved plan tick by tick with a scripted (seeded) client that delays starts / ends and reports failures,
// exactly as the Java / ROS front ends drive the executor: executor created before reading, read, solve, tick(), answers inside callbacks.
//
//   exec_drv <file.rddl> <units_per_tick n/d> <seed> <max_ticks> <p_delay%> <p_fail%>
//
// Output: one JSON event per line (the history); the driver never judges.
#include "solver.h"
#include "executor.h"
#include "executor_listener.h"
#include "atom.h"
#include "predicate.h"
#include <iostream>
#include <sstream>

using namespace ratio;
using namespace smt;

static std::string sR(const rational &r) { return "\"" + std::to_string(r.numerator()) + "/" + std::to_string(r.denominator()) + "\""; }
static std::string sQ(const inf_rational &q) { return "[" + sR(q.get_rational()) + "," + sR(q.get_infinitesimal()) + "]"; }

struct prng
{
    unsigned long s;
    unsigned long next()
    {
        s = s * 6364136223846793005UL + 1442695040888963407UL;
        unsigned long x = s;
        x ^= x >> 33;
        x *= 0xff51afd7ed558ccdUL;
        x ^= x >> 33;
        return x;
    }
    unsigned pct() { return next() % 100; }
};

class client : public executor_listener
{
public:
    client(executor &e, solver &s, prng &r, unsigned p_delay) : executor_listener(e), ex(e), slv(s), rnd(r), p_delay(p_delay) {}

    std::unordered_set<atom *> executing, done;

private:
    executor &ex;
    solver &slv;
    prng &rnd;
    unsigned p_delay;

    std::string vals(atom *a)
    {
        std::string s = "{";
        bool f = true;
        for (const auto &[n, x] : a->get_exprs())
            if (arith_item *ai = dynamic_cast<arith_item *>(&*x))
            {
                s += std::string(f ? "" : ",") + "\"" + n + "\":" + sQ(slv.arith_value(arith_expr(ai)));
                f = false;
            }
        return s + "}";
    }

    std::string ids(const std::unordered_set<atom *> &atoms, bool with_vals)
    {
        std::string s = with_vals ? "{" : "[";
        bool f = true;
        for (const auto &a : atoms)
        {
            s += (f ? "" : ",");
            if (with_vals)
                s += "\"" + std::to_string(a->get_id()) + "\":" + vals(a);
            else
                s += std::to_string(a->get_id());
            f = false;
        }
        return s + (with_vals ? "}" : "]");
    }

    rational delay()
    {
        switch (rnd.next() % 5)
        {
        case 0:
            return rational(1, 2);
        case 1:
            return rational(1);
        case 2:
            return rational(2);
        case 3:
            return rational(3, 2);
        default:
            return rational(5);
        }
    }

    void tick(const rational &time) override { std::cout << "{\"ev\":\"tick\",\"time\":" << sR(time) << "}" << std::endl; }

    void starting(const std::unordered_set<atom *> &atoms) override
    {
        std::unordered_map<const atom *, rational> dl;
        std::string d = "{";
        for (const auto &a : atoms)
            if (rnd.pct() < p_delay)
            {
                rational r = delay();
                dl.emplace(a, r);
                d += std::string(d.size() > 1 ? "," : "") + "\"" + std::to_string(a->get_id()) + "\":" + sR(r);
            }
        std::cout << "{\"ev\":\"starting\",\"atoms\":" << ids(atoms, true) << ",\"delayed\":" << d << "},\"now\":" << sR(ex.get_current_time()) << "}" << std::endl;
        if (!dl.empty())
            ex.dont_start_yet(dl);
    }
    void start(const std::unordered_set<atom *> &atoms) override
    {
        std::cout << "{\"ev\":\"start\",\"atoms\":" << ids(atoms, true) << ",\"now\":" << sR(ex.get_current_time()) << "}" << std::endl;
        for (const auto &a : atoms)
            executing.insert(a);
    }
    void ending(const std::unordered_set<atom *> &atoms) override
    {
        std::unordered_map<const atom *, rational> dl;
        std::string d = "{";
        for (const auto &a : atoms)
            if (rnd.pct() < p_delay)
            {
                rational r = delay();
                dl.emplace(a, r);
                d += std::string(d.size() > 1 ? "," : "") + "\"" + std::to_string(a->get_id()) + "\":" + sR(r);
            }
        std::cout << "{\"ev\":\"ending\",\"atoms\":" << ids(atoms, true) << ",\"delayed\":" << d << "},\"now\":" << sR(ex.get_current_time()) << "}" << std::endl;
        if (!dl.empty())
            ex.dont_end_yet(dl);
    }
    void end(const std::unordered_set<atom *> &atoms) override
    {
        std::cout << "{\"ev\":\"end\",\"atoms\":" << ids(atoms, true) << ",\"now\":" << sR(ex.get_current_time()) << "}" << std::endl;
        for (const auto &a : atoms)
        {
            executing.erase(a);
            done.insert(a);
        }
    }
};

static rational pRat(const std::string &s)
{
    auto p = s.find('/');
    if (p == std::string::npos)
        return rational(std::stol(s));
    return rational(std::stol(s.substr(0, p)), std::stol(s.substr(p + 1)));
}

int main(int argc, char **argv)
{
    if (argc < 7)
        return 2;
    const std::string file = argv[1];
    const rational upt = pRat(argv[2]);
    prng rnd{static_cast<unsigned long>(std::stoul(argv[3])) * 2654435761UL + 12345};
    const int max_ticks = std::stoi(argv[4]);
    const unsigned p_delay = std::stoul(argv[5]), p_fail = std::stoul(argv[6]);

    solver s;
    executor ex(s, upt);
    client cl(ex, s, rnd, p_delay);
    try
    {
        s.read(std::vector<std::string>({file}));
        if (!s.solve())
        {
            std::cout << "{\"ev\":\"unsolvable\"}" << std::endl;
            return 0;
        }
    }
    catch (const std::exception &e)
    {
        std::cout << "{\"ev\":\"read-error\",\"what\":\"" << e.what() << "\"}" << std::endl;
        return 0;
    }
    std::cout << "{\"ev\":\"solved\",\"state\":" << static_cast<core &>(s) << "}" << std::endl;

    int idle = 0;
    for (int i = 0; i < max_ticks; ++i)
    {
        std::cout << "{\"ev\":\"tick_begin\",\"n\":" << i << ",\"time\":" << sR(ex.get_current_time()) << "}" << std::endl;
        try
        {
            ex.tick();
            // between ticks the client may report the failure of an executing or future atom
            if (rnd.pct() < p_fail && !cl.executing.empty())
            {
                atom *a = *cl.executing.begin();
                std::cout << "{\"ev\":\"failure\",\"atoms\":[" << a->get_id() << "]}" << std::endl;
                cl.executing.erase(a);
                ex.failure({a});
                idle = 0; // the repaired plan gets its ticks: a history never stops right after a failure
            }
        }
        catch (const execution_exception &e)
        {
            std::cout << "{\"ev\":\"execution_exception\"}" << std::endl;
            return 0;
        }
        catch (const std::exception &e)
        {
            std::cout << "{\"ev\":\"exception\",\"what\":\"" << e.what() << "\"}" << std::endl;
            return 0;
        }
        std::cout << "{\"ev\":\"tick_end\",\"n\":" << i << ",\"time\":" << sR(ex.get_current_time()) << ",\"state\":" << static_cast<core &>(s) << ",\"timelines\":";
        s.extract_timelines().to_json(std::cout);
        std::cout << "}" << std::endl;
        // stop a while after the horizon has passed
        const auto hz = s.arith_value(s.get("horizon")).get_rational();
        if (rational(ex.get_current_time()) > hz + upt + upt)
            if (++idle > 3)
                break;
    }
    std::cout << "{\"ev\":\"finished\"}" << std::endl;
    return 0;
}
