// libFuzzer target (C18 monitor 1): any byte string -> riddle_parser (FUZZ_MODE 0) or a fresh solver's read() (FUZZ_MODE 1).
// A reported error (std::exception) is a legitimate outcome.
#include "solver.h"
#include "core_parser.h"
#include <sstream>
#include <string>

#ifndef FUZZ_MODE
#define FUZZ_MODE 0
#endif

extern "C" int LLVMFuzzerTestOneInput(const uint8_t *data, size_t size)
{
    std::string text(reinterpret_cast<const char *>(data), size);
    try
    {
#if FUZZ_MODE == 0
        std::stringstream ss(text);
        ratio::riddle_parser prs(ss);
        delete prs.parse();
#else
        ratio::solver s;
        s.read(text);
#endif
    }
    catch (const std::exception &)
    {
    }
    return 0;
}
