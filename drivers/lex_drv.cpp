// C16(a) / C18 driver: tokenises each file named on the command line with the real riddle::lexer and prints the token stream.
//   @@FILE <i>
//   <SYM> [payload]          one per token (positions are not printed)
//   @@ERROR <what>           the lexer rejected the input with a reported error
#include "riddle_lexer.h"
#include <fstream>
#include <iostream>
#include <sstream>
#include <memory>

using namespace riddle;

static const char *names[] = {"BOOL", "INT", "REAL", "TP", "STRING", "TYPEDEF", "ENUM", "CLASS", "GOAL", "FACT", "PREDICATE", "NEW", "OR", "THIS", "VOID", "RETURN",
                              "DOT", "COMMA", "COLON", "SEMICOLON", "LPAREN", "RPAREN", "LBRACKET", "RBRACKET", "LBRACE", "RBRACE", "PLUS", "MINUS", "STAR", "SLASH",
                              "AMP", "BAR", "EQ", "GT", "LT", "BANG", "EQEQ", "LTEQ", "GTEQ", "BANGEQ", "IMPLICATION", "CARET", "ID", "BoolLiteral", "IntLiteral",
                              "RealLiteral", "StringLiteral", "EOF"};

int main(int argc, char **argv)
{
    for (int i = 1; i < argc; ++i)
    {
        std::cout << "@@FILE " << (i - 1) << std::endl;
        std::ifstream ifs(argv[i], std::ios::binary);
        try
        {
            lexer lex(ifs);
            size_t n = 0;
            while (true)
            {
                std::unique_ptr<token> tk(lex.next());
                if (!tk)
                {
                    std::cout << "@@NULL" << std::endl;
                    break;
                }
                std::cout << names[tk->sym];
                switch (tk->sym)
                {
                case ID_ID:
                    std::cout << ' ' << static_cast<id_token &>(*tk).id;
                    break;
                case BoolLiteral_ID:
                    std::cout << ' ' << static_cast<bool_token &>(*tk).val;
                    break;
                case IntLiteral_ID:
                    std::cout << ' ' << static_cast<int_token &>(*tk).val;
                    break;
                case RealLiteral_ID:
                    std::cout << ' ' << static_cast<real_token &>(*tk).val.numerator() << '/' << static_cast<real_token &>(*tk).val.denominator();
                    break;
                case StringLiteral_ID:
                    std::cout << ' ' << static_cast<string_token &>(*tk).str;
                    break;
                default:
                    break;
                }
                std::cout << '\n';
                if (tk->sym == EOF_ID || ++n > 2000000)
                    break;
            }
        }
        catch (const std::exception &ex)
        {
            std::cout << "@@ERROR " << ex.what() << std::endl;
        }
        std::cout.flush();
    }
    return 0;
}
