// Network-level driver (C07-C14, C20): interprets one operation program per input line on a fresh
// sat_core + lra/idl/rdl/ov theories and prints one JSON trace per line ("= [...]").
//
//   case <id> ; <op> ; <op> ; ...
//
// Literals: NAME | !NAME | T | F          Linear expressions: k=1/2,x=1,y=-2/3   (k = known term)
// The driver never judges: it records results, observations (public accessors only) and hook events.
#include "sat_core.h"
#include "lra_theory.h"
#include "idl_theory.h"
#include "rdl_theory.h"
#include "ov_theory.h"
#include "verif.h"
#include <algorithm>
#include <atomic>
#include <functional>
#include <chrono>
#include <cstdlib>
#include <iostream>
#include <map>
#include <memory>
#include <mutex>
#include <sstream>
#include <stdexcept>
#include <string>
#include <thread>
#include <vector>

using namespace smt;

static std::string sR(const rational &r) { return std::to_string(r.numerator()) + "/" + std::to_string(r.denominator()); }
static std::string sQ(const inf_rational &q) { return "\"" + sR(q.get_rational()) + "," + sR(q.get_infinitesimal()) + "\""; }
static std::string sLit(const lit &p) { return std::string("\"") + (sign(p) ? "" : "!") + "b" + std::to_string(variable(p)) + "\""; }
static std::string sLits(const std::vector<lit> &ls)
{
    std::string s = "[";
    for (size_t i = 0; i < ls.size(); ++i)
        s += (i ? "," : "") + sLit(ls[i]);
    return s + "]";
}
static std::string sLin(const lin &l)
{
    std::string s = "{\"k\":\"" + sR(l.known_term) + "\"";
    for (const auto &[v, c] : l.vars)
        s += ",\"" + std::to_string(v) + "\":\"" + sR(c) + "\"";
    return s + "}";
}

static I pI(const std::string &s) { return std::stol(s); }
static rational pR(const std::string &s)
{
    auto p = s.find('/');
    if (p == std::string::npos)
        return rational(pI(s));
    return rational(pI(s.substr(0, p)), pI(s.substr(p + 1)));
}
static inf_rational pQ(const std::string &s)
{ // r or r~e  ('~' separates the infinitesimal part)
    auto p = s.find('~');
    if (p == std::string::npos)
        return inf_rational(pR(s));
    return inf_rational(pR(s.substr(0, p)), pR(s.substr(p + 1)));
}

struct val_obj : public var_value
{
    std::string name;
    val_obj(const std::string &n) : name(n) {}
};

struct net;
static net *cur_net = nullptr;

// ---- pivot instrumentation (C20) --------------------------------------------------------------
static std::atomic<long> pv_tasks{0}, pv_running{0}, pv_maxconc{0}, pv_seq{0};
static std::mutex pv_mtx;                  // protects the monitor's own completion log (never held while library code runs)
static std::vector<long> pv_completion;    // tickets (start order) in completion order
static thread_local long pv_ticket = -1;
static long pv_delay_seed = 0; // 0 = no delay injection
static void pv_delay(int phase)
{
    if (!pv_delay_seed)
        return;
    unsigned long x = static_cast<unsigned long>(pv_delay_seed) * 6364136223846793005UL + static_cast<unsigned long>(pv_seq.fetch_add(1, std::memory_order_relaxed)) * 1442695040888963407UL + phase;
    x ^= x >> 33;
    x *= 0xff51afd7ed558ccdUL;
    x ^= x >> 33;
    switch (x % 7)
    {
    case 0:
    case 1:
        std::this_thread::yield();
        break;
    case 2:
        std::this_thread::sleep_for(std::chrono::microseconds(20 + (x >> 8) % 200));
        break;
    default:
        break;
    }
}

struct net : public verif::listener
{
    sat_core sat;
    lra_theory lra;
    idl_theory idl;
    rdl_theory rdl;
    ov_theory ov;
    std::map<std::string, lit> lits;
    std::map<std::string, var> lvars, ivars, rvars, ovars;
    std::map<std::string, std::unique_ptr<val_obj>> vals;
    std::map<std::string, std::vector<std::string>> odoms;
    std::ostringstream out;
    bool first_ev = true;
    bool dead = false;
    size_t n_lra = 0;

    net() : sat(), lra(sat), idl(sat), rdl(sat), ov(sat)
    {
        lits["T"] = TRUE_lit;
        lits["F"] = FALSE_lit;
        ivars["t0"] = 0; // the origin of both difference-logic theories
        rvars["t0"] = 0;
    }

    void ev(const std::string &s)
    {
        out << (first_ev ? "" : ",") << s;
        first_ev = false;
    }

    // hooks
    void new_clause(const std::vector<lit> &ls) override
    {
        for (const auto &p : ls)
            sync_sat(p);
        ev("{\"h\":\"clause\",\"l\":" + sLits(ls) + "}");
    }
    void learnt(const std::vector<lit> &ls) override
    {
        for (const auto &p : ls)
            sync_sat(p);
        ev("{\"h\":\"learnt\",\"l\":" + sLits(ls) + "}");
    }
    void theory_conflict(const theory &th, const std::vector<lit> &ls) override
    {
        std::string n = &th == &lra ? "lra" : &th == &idl ? "idl" : &th == &rdl ? "rdl" : &th == &ov ? "ov" : "other";
        // a conflict clause consists of literals that are false right now: report the ones that are not
        std::vector<lit> nf;
        for (const auto &p : ls)
            if (sat.value(p) != False)
                nf.push_back(p);
        ev("{\"h\":\"tconf\",\"th\":\"" + n + "\",\"l\":" + sLits(ls) + ",\"nf\":" + sLits(nf) + "}");
    }
    void lra_slack(const var &x, const lin &l) override
    {
        if (x + 1 > n_lra)
            n_lra = x + 1;
        ev("{\"h\":\"slack\",\"x\":" + std::to_string(x) + ",\"lin\":" + sLin(l) + "}");
    }
    void lra_assertion(const var &b, int o, const var &x, const inf_rational &v) override
    {
        if (b + 1 > sat_vars)
            sat_vars = b + 1;
        ev("{\"h\":\"asrt\",\"b\":" + std::to_string(b) + ",\"op\":" + std::to_string(o) + ",\"x\":" + std::to_string(x) + ",\"v\":" + sQ(v) + "}");
    }
    void dl_distance(int k, const var &b, const var &from, const var &to, const inf_rational &d) override
    {
        if (b + 1 > sat_vars)
            sat_vars = b + 1;
        ev(std::string("{\"h\":\"dist\",\"th\":\"") + (k ? "rdl" : "idl") + "\",\"b\":" + std::to_string(b) + ",\"from\":" + std::to_string(from) + ",\"to\":" + std::to_string(to) + ",\"d\":" + sQ(d) + "}");
    }
    void pivot_task(int phase) override
    {
        if (phase == 0)
        {
            pv_ticket = pv_tasks.fetch_add(1, std::memory_order_relaxed);
            long r = pv_running.fetch_add(1, std::memory_order_relaxed) + 1;
            long m = pv_maxconc.load(std::memory_order_relaxed);
            while (r > m && !pv_maxconc.compare_exchange_weak(m, r, std::memory_order_relaxed))
            {
            }
            pv_delay(phase);
        }
        else
        {
            pv_delay(phase);
            {
                std::lock_guard<std::mutex> lock(pv_mtx);
                pv_completion.push_back(pv_ticket);
            }
            pv_running.fetch_sub(1, std::memory_order_relaxed);
        }
    }

    lit L(const std::string &s)
    {
        if (s[0] == '!')
            return !L(s.substr(1));
        if (const auto it = lits.find(s); it != lits.cend())
            return it->second;
        if (s.size() > 1 && s[0] == 'b' && s.find_first_not_of("0123456789", 1) == std::string::npos)
            return lit(static_cast<var>(std::stoul(s.substr(1)))); // raw library literal (used by twin networks)
        throw std::out_of_range("unknown literal " + s);
    }
    std::vector<lit> Ls(const std::vector<std::string> &t, size_t from)
    {
        std::vector<lit> r;
        for (size_t i = from; i < t.size(); ++i)
            r.push_back(L(t[i]));
        return r;
    }
    lin LIN(const std::string &s, const std::map<std::string, var> &vars)
    {
        lin l;
        if (s == "0")
            return l;
        std::stringstream ss(s);
        std::string it;
        while (std::getline(ss, it, ','))
        {
            auto p = it.find('=');
            std::string n = it.substr(0, p);
            rational c = pR(it.substr(p + 1));
            if (n == "k")
                l.known_term += c;
            else
                l += lin(vars.at(n), c);
        }
        return l;
    }

    std::string obs()
    {
        std::string s = "{\"lvl\":" + std::to_string(sat.decision_level()) + ",\"dec\":" + sLits(sat.get_decisions());
        // values of all propositional variables: we learn the number of variables from the names we know + hooks is fragile, so we keep our own count
        s += ",\"val\":\"";
        for (var v = 0; v < n_sat(); ++v)
            s += static_cast<char>('0' + sat.value(v));
        s += "\"";
        s += ",\"lra\":[";
        for (var v = 0; v < n_lra; ++v)
            s += std::string(v ? "," : "") + "[" + sQ(lra.value(v)) + "," + sQ(lra.lb(v)) + "," + sQ(lra.ub(v)) + "]";
        s += "]";
        s += ",\"idl\":[";
        for (var i = 0; i < idl.size(); ++i)
        {
            s += std::string(i ? "," : "") + "[";
            for (var j = 0; j < idl.size(); ++j)
            {
                I d = idl.distance(i, j).second;
                s += std::string(j ? "," : "") + (d >= idl_theory::inf() ? "null" : std::to_string(d));
            }
            s += "]";
        }
        s += "],\"rdl\":[";
        for (var i = 0; i < rdl.size(); ++i)
        {
            s += std::string(i ? "," : "") + "[";
            for (var j = 0; j < rdl.size(); ++j)
                s += std::string(j ? "," : "") + sQ(rdl.distance(i, j).second);
            s += "]";
        }
        s += "],\"ov\":{";
        bool f = true;
        for (const auto &[n, v] : ovars)
        {
            s += std::string(f ? "" : ",") + "\"" + n + "\":[";
            f = false;
            bool g = true;
            std::vector<std::string> names;
            for (const auto &x : ov.value(v))
                names.push_back(static_cast<val_obj *>(x)->name);
            std::sort(names.begin(), names.end());
            for (const auto &x : names)
            {
                s += std::string(g ? "" : ",") + "\"" + x + "\"";
                g = false;
            }
            s += "]";
        }
        s += "}}";
        return s;
    }

    var sat_vars = 1; // FALSE_var
    var n_sat() { return sat_vars; }
    void sync_sat(const lit &p)
    {
        if (variable(p) + 1 > sat_vars)
            sat_vars = variable(p) + 1;
    }

    void enumerate(var top, size_t limit, std::string &res)
    {
        std::vector<lit> prefix;
        size_t count = 0;
        bool trunc = false;
        std::string models;
        std::function<void(var)> rec = [&](var v)
        {
            if (trunc)
                return;
            if (v == top)
            {
                if (count++)
                    models += ",";
                models += "\"";
                for (const auto &p : prefix)
                    models += sign(p) ? '1' : '0';
                models += "\"";
                if (count >= limit)
                    trunc = true;
                return;
            }
            for (int s = 1; s >= 0; --s)
            {
                prefix.push_back(lit(v, s));
                if (sat.check(prefix))
                    rec(v + 1);
                prefix.pop_back();
            }
        };
        rec(1);
        res = "{\"top\":" + std::to_string(top) + ",\"trunc\":" + (trunc ? "true" : "false") + ",\"models\":[" + models + "]}";
    }

    void run_op(const std::vector<std::string> &t, size_t idx)
    {
        const std::string &op = t[0];
        std::string res = "null";
        ev("{\"call\":" + std::to_string(idx) + ",\"op\":\"" + op + "\"}");
        if (dead && op != "obs")
        { // the network already reported a root-level inconsistency: using it further would violate the API's preconditions
            ev("{\"ret\":" + std::to_string(idx) + ",\"res\":\"skip-dead\"}");
            return;
        }
        auto reg = [&](const std::string &name, const lit &p)
        {
            lits[name] = p;
            res = sLit(p);
        };
        auto DL = [&](auto &th, const std::map<std::string, var> &vars, bool is_idl)
        {
            const std::string &sub = t[1];
            try
            {
                if (sub == "var")
                {
                    var v = th.new_var();
                    const_cast<std::map<std::string, var> &>(vars)[t[2]] = v;
                    res = std::to_string(v);
                }
                else if (sub == "dist")
                {
                    if (is_idl)
                        reg(t[2], idl.new_distance(ivars.at(t[3]), ivars.at(t[4]), pI(t[5])));
                    else
                        reg(t[2], rdl.new_distance(rvars.at(t[3]), rvars.at(t[4]), pQ(t[5])));
                }
                else if (sub == "dist2")
                {
                    if (is_idl)
                        reg(t[2], idl.new_distance(ivars.at(t[3]), ivars.at(t[4]), pI(t[5]), pI(t[6])));
                    else
                        reg(t[2], rdl.new_distance(rvars.at(t[3]), rvars.at(t[4]), pQ(t[5]), pQ(t[6])));
                }
                else if (sub == "rel")
                {
                    lin l = LIN(t[4], vars), r = LIN(t[5], vars);
                    const std::string &o = t[3];
                    lit p = o == "lt" ? th.new_lt(l, r) : o == "leq" ? th.new_leq(l, r) : o == "eq" ? th.new_eq(l, r) : o == "geq" ? th.new_geq(l, r) : th.new_gt(l, r);
                    reg(t[2], p);
                }
                else if (sub == "bounds")
                {
                    auto b = th.bounds(LIN(t[2], vars));
                    if constexpr (std::is_same_v<decltype(b.first), I>)
                        res = "[" + std::to_string(b.first) + "," + std::to_string(b.second) + "]";
                    else
                        res = "[" + sQ(b.first) + "," + sQ(b.second) + "]";
                }
                else if (sub == "distance")
                {
                    auto b = th.distance(LIN(t[2], vars), LIN(t[3], vars));
                    if constexpr (std::is_same_v<decltype(b.first), I>)
                        res = "[" + std::to_string(b.first) + "," + std::to_string(b.second) + "]";
                    else
                        res = "[" + sQ(b.first) + "," + sQ(b.second) + "]";
                }
                else if (sub == "equates")
                    res = th.equates(LIN(t[2], vars), LIN(t[3], vars)) ? "true" : "false";
                else
                    res = "\"unknown-op\"";
            }
            catch (const std::invalid_argument &ex)
            {
                res = "\"invalid_argument\"";
            }
        };

        if (op == "bvar")
        {
            var v = sat.new_var();
            reg(t[1], lit(v));
        }
        else if (op == "clause")
            res = sat.new_clause(Ls(t, 1)) ? "true" : "false";
        else if (op == "eq")
            reg(t[1], sat.new_eq(L(t[2]), L(t[3])));
        else if (op == "conj")
            reg(t[1], sat.new_conj(Ls(t, 2)));
        else if (op == "disj")
            reg(t[1], sat.new_disj(Ls(t, 2)));
        else if (op == "amo")
            reg(t[1], sat.new_at_most_one(Ls(t, 2)));
        else if (op == "exct")
            reg(t[1], sat.new_exct_one(Ls(t, 2)));
        else if (op == "lvar")
        {
            var v = lra.new_var();
            lvars[t[1]] = v;
            res = std::to_string(v);
        }
        else if (op == "lslack")
        {
            var v = lra.new_var(LIN(t[2], lvars));
            lvars[t[1]] = v;
            res = std::to_string(v);
        }
        else if (op == "lrel")
        {
            lin l = LIN(t[3], lvars), r = LIN(t[4], lvars);
            const std::string &o = t[2];
            lit p = o == "lt" ? lra.new_lt(l, r) : o == "leq" ? lra.new_leq(l, r) : o == "eq" ? lra.new_eq(l, r) : o == "geq" ? lra.new_geq(l, r) : lra.new_gt(l, r);
            reg(t[1], p);
        }
        else if (op == "lbounds")
        {
            auto b = lra.bounds(LIN(t[1], lvars));
            res = "[" + sQ(b.first) + "," + sQ(b.second) + "]";
        }
        else if (op == "lvalue")
            res = sQ(lra.value(LIN(t[1], lvars)));
        else if (op == "lequates")
            res = lra.equates(LIN(t[1], lvars), LIN(t[2], lvars)) ? "true" : "false";
        else if (op == "idl")
            DL(idl, ivars, true);
        else if (op == "rdl")
            DL(rdl, rvars, false);
        else if (op == "oval")
            vals[t[1]] = std::make_unique<val_obj>(t[1]);
        else if (op == "ovar" || op == "ovar0")
        { // ovar NAME v1 v2 ..   (ovar0: enforce_exct_one = false)
            std::vector<var_value *> vs;
            std::vector<std::string> dn;
            for (size_t i = 2; i < t.size(); ++i)
            {
                if (!vals.count(t[i]))
                    vals[t[i]] = std::make_unique<val_obj>(t[i]);
                vs.push_back(vals.at(t[i]).get());
                dn.push_back(t[i]);
            }
            var v = ov.new_var(vs, op == "ovar");
            ovars[t[1]] = v;
            odoms[t[1]] = dn;
            res = "{\"v\":" + std::to_string(v) + ",\"allows\":{";
            for (size_t i = 0; i < dn.size(); ++i)
            {
                lit p = ov.allows(v, *vs[i]);
                sync_sat(p);
                lits[t[1] + "=" + dn[i]] = p;
                res += std::string(i ? "," : "") + "\"" + dn[i] + "\":" + sLit(p);
            }
            res += "}}";
        }
        else if (op == "allows")
        { // allows NAME OV VAL
            if (!vals.count(t[3]))
                vals[t[3]] = std::make_unique<val_obj>(t[3]);
            reg(t[1], ov.allows(ovars.at(t[2]), *vals.at(t[3])));
        }
        else if (op == "oeq")
            reg(t[1], ov.new_eq(ovars.at(t[2]), ovars.at(t[3])));
        else if (op == "assume" && !lits.count(t[1][0] == '!' ? t[1].substr(1) : t[1]) && (t[1][0] == '!' ? t[1][1] : t[1][0]) != 'b')
            res = "\"skip-unknown\""; // the request that should have defined the literal was rejected
        else if (op == "assume")
        {
            lit p = L(t[1]);
            if (sat.value(p) != Undefined)
                res = "\"skip-assigned\"";
            else
                res = sat.assume(p) ? "true" : "false";
        }
        else if (op == "pop")
        {
            if (sat.root_level())
                res = "\"skip-root\"";
            else
            {
                sat.pop();
                res = "true";
            }
        }
        else if (op == "next")
        {
            const bool was_root = sat.root_level();
            res = sat.next() ? "true" : "false";
            if (!was_root && res == "false")
                dead = true; // the no-good made the network inconsistent at root level
        }
        else if (op == "propagate")
            res = sat.propagate() ? "true" : "false";
        else if (op == "simplify")
        {
            if (!sat.root_level())
                res = "\"skip-nonroot\"";
            else
                res = sat.simplify_db() ? "true" : "false";
        }
        else if (op == "check")
        {
            const size_t lvl = sat.decision_level();
            res = sat.check(Ls(t, 1)) ? "true" : "false";
            if (res == "false" && sat.decision_level() < lvl)
                dead = true; // check() does not tell whether the refutation reached root level: the standing decisions are gone, we stop conservatively
        }
        else if (op == "root")
        { // pops to root level
            while (!sat.root_level())
                sat.pop();
            res = "true";
        }
        else if (op == "fill")
        { // assumes unassigned variables (pseudo-random polarity) until every variable is assigned or an assumption is refused
            unsigned long x = t.size() > 1 ? std::stoul(t[1]) : 1;
            size_t steps = 0;
            bool ok = true;
            while (ok && steps < 200)
            {
                var pick = 0;
                for (var v = 1; v < n_sat(); ++v)
                    if (sat.value(v) == Undefined)
                    {
                        pick = v;
                        break;
                    }
                if (!pick)
                    break;
                x = x * 6364136223846793005UL + 1442695040888963407UL;
                ok = sat.assume(lit(pick, (x >> 33) & 1));
                ++steps;
            }
            if (!ok && sat.root_level())
                dead = true;
            res = std::string("{\"ok\":") + (ok ? "true" : "false") + ",\"steps\":" + std::to_string(steps) + "}";
        }
        else if (op == "enum")
        {
            var top = sat.new_var();
            sat_vars = top + 1;
            if (!sat.propagate())
                res = "{\"top\":" + std::to_string(top) + ",\"trunc\":false,\"models\":[],\"root_conflict\":true}";
            else
                enumerate(top, t.size() > 1 ? std::stoul(t[1]) : 100000, res);
        }
        else if (op == "obs")
            ;
        else
            res = "\"unknown-op\"";

        if (res == "false" && sat.root_level() && (op == "clause" || op == "propagate" || op == "simplify" || op == "assume"))
            dead = true;
        // keep our count of propositional variables in sync (reified constructs create internal ones)
        for (const auto &[n, p] : lits)
            sync_sat(p);
        for (const auto &[n, v] : lvars)
            if (v + 1 > n_lra)
                n_lra = v + 1;
        ev("{\"ret\":" + std::to_string(idx) + ",\"res\":" + res + (op == "obs" ? ",\"obs\":" + obs() : "") + "}");
    }
};

int main(int argc, char **argv)
{
    if (const char *ds = std::getenv("VERIF_PIVOT_DELAY_SEED"))
        pv_delay_seed = std::atol(ds);
    std::string line;
    while (std::getline(std::cin, line))
    {
        // split on ';'
        std::vector<std::vector<std::string>> ops;
        {
            std::stringstream ss(line);
            std::string part;
            while (std::getline(ss, part, ';'))
            {
                std::stringstream ps(part);
                std::vector<std::string> toks;
                std::string tk;
                while (ps >> tk)
                    toks.push_back(tk);
                if (!toks.empty())
                    ops.push_back(toks);
            }
        }
        if (ops.empty())
            continue;
        std::cerr << "@case " << (ops[0].size() > 1 ? ops[0][1] : "?") << std::endl;
        pv_tasks = 0;
        pv_completion.clear();
        pv_maxconc = 0;
        pv_running = 0;
        pv_seq = 0;
        std::string result;
        {
            net n;
            verif::current() = &n;
            for (size_t i = 1; i < ops.size(); ++i)
                n.run_op(ops[i], i);
            unsigned long oh = 1469598103934665603UL;
            long inversions = 0;
            for (size_t k = 0; k < pv_completion.size(); ++k)
            {
                oh = (oh ^ static_cast<unsigned long>(pv_completion[k])) * 1099511628211UL;
                if (k && pv_completion[k] < pv_completion[k - 1])
                    ++inversions;
            }
            n.ev("{\"end\":true,\"pivot_tasks\":" + std::to_string(pv_tasks.load()) + ",\"pivot_maxconc\":" + std::to_string(pv_maxconc.load()) + ",\"pivot_order\":\"" + std::to_string(oh) + "\",\"pivot_inversions\":" + std::to_string(inversions) + "}");
            verif::current() = nullptr;
            result = n.out.str();
        }
        std::cout << "= [" << result << "]" << std::endl;
    }
    return 0;
}
