// Solver-level probe (C01-C06, C16, C17, C18): reads RIDDLE files with the real solver, records what the public
// API and the upstream listener interfaces expose, and prints it in sections.  It never judges.
//
//   probe <file.rddl> [<file.rddl> ...]
//
// @@READ ok | error <what>
// @@PRE <core json>                    state right after read()
// @@SOLVE true | false | error <what>
// @@POST <core json>                   the solution as a user sees it (operator<< of core)
// @@TIMELINES <json>
// @@GRAPH <json>                       flaws / resolvers / causal links seen through solver_listener + final literal values
#include "solver.h"
#include "solver_listener.h"
#include "atom.h"
#include "verif.h"
#include <set>
#include <iostream>
#include <cstdlib>
#include <sstream>
#include <map>
#include <vector>

using namespace ratio;
using namespace smt;

static std::string esc(const std::string &s)
{
    std::string o;
    for (char c : s)
        if (c == '"' || c == '\\')
        {
            o += '\\';
            o += c;
        }
        else if (c == '\n')
            o += "\\n";
        else
            o += c;
    return o;
}

class rec_listener : public solver_listener
{
public:
    rec_listener(solver &s) : solver_listener(s) {}

    std::vector<const flaw *> flaws;
    std::vector<const resolver *> resolvers;
    std::vector<std::pair<const flaw *, const resolver *>> links;
    std::map<const flaw *, size_t> f_order;
    std::map<const resolver *, size_t> r_order;
    size_t counter = 0;

private:
    void flaw_created(const flaw &f) override
    {
        f_order[&f] = counter++;
        flaws.push_back(&f);
    }
    void resolver_created(const resolver &r) override
    {
        r_order[&r] = counter++;
        resolvers.push_back(&r);
    }
    void causal_link_added(const flaw &f, const resolver &r) override { links.emplace_back(&f, &r); }
};

#ifdef ORATIO_VERIF
// meaning of the theory literals, as reported by the hooks: used to tell which theory atoms a reported solution leaves undecided
struct atom_rec : public smt::verif::listener
{
    std::map<var, lin> slacks;
    struct asrt
    {
        var b;
        int op;
        var x;
        inf_rational v;
    };
    std::vector<asrt> asrts;
    void lra_slack(const var &x, const lin &l) override { slacks.emplace(x, l); }
    void lra_assertion(const var &b, int op, const var &x, const inf_rational &v) override { asrts.push_back({b, op, x, v}); }
    // the atom's expression over the problem's own variables: slack variables are replaced, with their coefficients, by the rows
    // they were created from, so that terms introduced by the tableau's pivoting (x = row of x) cancel out again
    lin base_lin(const var &x, int depth = 0) const
    {
        const auto it = slacks.find(x);
        if (it == slacks.cend() || depth > 40)
            return lin(x, rational::ONE);
        lin res;
        for (const auto &[v, c] : it->second.vars)
            res += base_lin(v, depth + 1) * c;
        return res;
    }
    void base_vars(const var &x, std::set<var> &out) const
    {
        for (const auto &[v, c] : base_lin(x).vars)
            out.insert(v);
    }
};
#endif

static std::string lv(solver &s, const lit &p)
{
    switch (s.get_sat_core().value(p))
    {
    case True:
        return "\"T\"";
    case False:
        return "\"F\"";
    default:
        return "\"U\"";
    }
}

int main(int argc, char **argv)
{
    std::vector<std::string> files;
    for (int i = 1; i < argc; ++i)
        files.push_back(argv[i]);

#ifdef ORATIO_VERIF
    atom_rec atoms;
    smt::verif::current() = &atoms;
#endif
    solver s;
    rec_listener l(s);
    try
    {
        if (getenv("PROBE_INCREMENTAL") && files.size() > 1)
        { // the way the executor / the interactive front ends use the solver: read, solve, read more, solve again
            for (size_t i = 0; i + 1 < files.size(); ++i)
            {
                s.read(std::vector<std::string>({files[i]}));
                if (!s.solve())
                {
                    std::cout << "@@READ ok" << std::endl;
                    std::cout << "@@SOLVE false" << std::endl;
                    return 0;
                }
                while (!s.root_level()) // new requirements are read at root level (as deliberative_executor.cpp does)..
                    s.get_sat_core().pop();
            }
            s.read(std::vector<std::string>({files.back()}));
        }
        else
            s.read(files);
        std::cout << "@@READ ok" << std::endl;
    }
    catch (const std::exception &ex)
    {
        std::cout << "@@READ error " << ex.what() << std::endl;
        return 0;
    }
    std::cout << "@@PRE " << static_cast<core &>(s) << std::endl;

    bool solved = false;
    try
    {
        solved = s.solve();
        std::cout << "@@SOLVE " << (solved ? "true" : "false") << std::endl;
    }
    catch (const std::exception &ex)
    {
        std::cout << "@@SOLVE error " << ex.what() << std::endl;
        return 0;
    }
    if (!solved)
        return 0;

    std::cout << "@@POST " << static_cast<core &>(s) << std::endl;
    std::cout << "@@TIMELINES ";
    s.extract_timelines().to_json(std::cout);
    std::cout << std::endl;

#ifdef ORATIO_VERIF
    {
        std::cout << "@@UNDECIDED [";
        bool fu = true;
        for (const auto &a : atoms.asrts)
            if (s.get_sat_core().value(a.b) == Undefined)
            {
                std::set<var> bv;
                atoms.base_vars(a.x, bv);
                std::cout << (fu ? "" : ",") << "{\"b\":" << a.b << ",\"op\":" << a.op << ",\"vars\":[";
                bool f2 = true;
                for (const auto &v : bv)
                {
                    std::cout << (f2 ? "" : ",") << v;
                    f2 = false;
                }
                std::cout << "]}";
                fu = false;
            }
        std::cout << "]" << std::endl;
    }
#endif
    std::ostringstream g;
    g << "{\"flaws\":[";
    bool first = true;
    for (const auto *f : l.flaws)
    {
        g << (first ? "" : ",") << "{\"id\":" << f->get_id() << ",\"order\":" << l.f_order[f] << ",\"phi\":\"" << to_string(f->get_phi()) << "\",\"phi_val\":" << lv(s, f->get_phi())
          << ",\"expanded\":" << (f->is_expanded() ? "true" : "false") << ",\"position\":[" << s.get_idl_theory().bounds(f->get_position()).first << "," << s.get_idl_theory().bounds(f->get_position()).second << "]"
          << ",\"data\":" << f->get_data() << ",\"causes\":[";
        bool f2 = true;
        for (const auto *c : f->get_causes())
        {
            g << (f2 ? "" : ",") << c->get_id();
            f2 = false;
        }
        g << "],\"resolvers\":[";
        f2 = true;
        for (const auto *r : f->get_resolvers())
        {
            g << (f2 ? "" : ",") << r->get_id();
            f2 = false;
        }
        g << "]}";
        first = false;
    }
    g << "],\"resolvers\":[";
    first = true;
    for (const auto *r : l.resolvers)
    {
        g << (first ? "" : ",") << "{\"id\":" << r->get_id() << ",\"order\":" << l.r_order[r] << ",\"rho\":\"" << to_string(r->get_rho()) << "\",\"rho_val\":" << lv(s, r->get_rho()) << ",\"effect\":" << r->get_effect().get_id()
          << ",\"data\":" << r->get_data() << ",\"preconditions\":[";
        bool f2 = true;
        for (const auto *p : r->get_preconditions())
        {
            g << (f2 ? "" : ",") << p->get_id();
            f2 = false;
        }
        g << "]}";
        first = false;
    }
    g << "],\"links\":[";
    first = true;
    for (const auto &[f, r] : l.links)
    {
        g << (first ? "" : ",") << "[" << f->get_id() << "," << r->get_id() << "]";
        first = false;
    }
    g << "]}";
    std::cout << "@@GRAPH " << g.str() << std::endl;
    return 0;
}
