// C18 monitor 1 driver: gives every file named on the command line to the real reader.
//   mode "parse": riddle_parser only        mode "read": a fresh solver's read() (declare / refine / execute + root propagation)
//   @@FILE <i> ok | error <what>
// A reported error (an exception derived from std::exception) is a legitimate outcome; anything else (signal, abort, sanitizer report, no
// termination) is what the monitor looks for.
#include "solver.h"
#include "core_parser.h"
#include <fstream>
#include <iostream>
#include <sstream>

using namespace ratio;

int main(int argc, char **argv)
{
    const std::string mode = argc > 1 ? argv[1] : "parse";
    for (int i = 2; i < argc; ++i)
    {
        std::cout << "@@FILE " << (i - 2) << ' ' << std::flush;
        try
        {
            if (mode == "parse")
            {
                std::ifstream ifs(argv[i], std::ios::binary);
                riddle_parser prs(ifs);
                delete prs.parse();
            }
            else
            {
                solver s;
                s.read(std::vector<std::string>({argv[i]}));
            }
            std::cout << "ok" << std::endl;
        }
        catch (const std::exception &ex)
        {
            std::cout << "error " << ex.what() << std::endl;
        }
    }
    return 0;
}
