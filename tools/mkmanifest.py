#!/usr/bin/env python3
"""Regenerates MANIFEST.json from the table below (keeps it valid at all times)."""
import json
import os
import subprocess

HERE = os.path.dirname(os.path.dirname(os.path.abspath(__file__)))
props = [json.loads(l) for l in open(os.path.join(HERE, "properties.jsonl"))]

T_DIFF = "runtime monitoring: differential execution against an exact reference model"
CHECKS = {
    "C07": dict(text="seeded histories (assume/pop/next/check/simplify_db/fill-to-total-assignment) over mixed SAT+LRA+IDL+RDL+OV networks on Debug and Release builds; after every step z3 decides whether every assigned literal follows from all clauses seen through the new_clause hook, the hook-reported meaning of every theory literal, the no-goods next() adds and the standing decisions; every false answer is compared with satisfiability, every learnt clause and theory conflict is checked for entailment, every complete assignment is evaluated against all clauses",
                note="trusts z3 on the small formulas the harness wrote itself and the hook events for which clauses/literals exist; incompleteness is never reported",
                technique="runtime monitoring: online entailment checking of observed state and hook events against an SMT reference model"),
    "C08": dict(text="pop-heavy histories; LRA bounds recomputed from the assigned assertion literals after every step, DL matrices compared with the closure of the assigned constraints after every step, and mixed networks compared at checkpoints with a twin network (same construction, only the standing decisions) - contradicting literal values, full theory state whenever the assigned literals coincide; on the main history: nothing assigned at root level is ever lost, no clause is unit or falsified at an observation, no theory conflict names a literal that is not false",
                note="LRA values are excluded (pivot-history dependent); above root level a twin may have propagated more theory literals than the main network (incompleteness), which is not judged",
                technique="runtime monitoring: recomputation of visible state from assigned literals + twin-network differential"),
    "C09": dict(text="seeded LRA systems and assert/negate/retract histories on Debug and Release builds; after every successful step the reported values are checked to be a model (bounds, slack definitions, asserted atoms, eps-strict) with exact arithmetic, z3 confirms feasibility and that no reported bound cuts off a real solution, every refutation is confirmed infeasible, every theory conflict and learnt clause seen through the hooks is validated",
                note="trusts z3 (Real arithmetic) on systems of <= 5 variables the harness wrote itself and the lra_slack/lra_assertion hooks for the meaning of internal variables",
                technique="runtime monitoring: model checking of reported values + SMT validation of explanations seen through hooks"),
    "C11": dict(text="relation requests with constants on both sides, cancelling variables, scaled/shifted/negated copies, issued before and after root-level tightening and pivots; TRUE/FALSE constants judged by z3 entailment, literals shared by two requests must be equivalent, and every decided request literal must agree with its relation on every model the theory reports",
                note="trusts z3 and exact evaluation; negated equalities with undecided parts are partial assignments and are not judged",
                technique="runtime monitoring: differential execution against an SMT reference + model evaluation"),
    "C10": dict(text="seeded assume/negate/pop histories over IDL and RDL networks (incl. growth beyond the initial matrix size, repeated pairs, clauses over constraint literals) on Debug and Release builds; after every step the whole distance matrix is compared with an independent exact all-pairs closure of the currently assigned constraints, refutations are compared with negative-cycle existence, and every learnt clause / theory conflict seen through the hooks is validated (closure or z3)",
                note="trusts the harness's Floyd-Warshall over (rational, eps) pairs and z3 (only for cases with propositional clauses); RDL constraints use eps in {0,-1}",
                technique="runtime monitoring: state observation after every API call vs exact shortest-path model; hook-level validation of explanations"),
    "C12": dict(text="generated relation requests (5 relations x 1/2 variables x sign/magnitude of c x side distribution x integer/rational k x IDL/RDL) on random consistent networks; constants are judged against the exact closure, literals by assuming them and their negation and comparing the full distance matrix with closure(network + relation); bounds/distance/equates compared with closure intervals",
                note="trusts the harness's closure; IDL requests with non-integer normalised bound may be rejected; IDL's finite infinity sentinel is not judged when scaled",
                technique="runtime monitoring: differential execution against an exact shortest-path reference model"),
    "C14": dict(text="object variables with singleton/identical/nested/disjoint/overlapping domains and repeated equality requests; either all models are enumerated through sat_core::check and compared with set semantics (exactly one value, eq iff same value, all value combinations accepted), or assume/pop histories are run with value() compared after every step with the allows() literals and with the brute-forced set of still possible values",
                note="trusts the harness's brute-force semantics; variables use the default enforce_exct_one=true",
                technique="runtime monitoring: exhaustive model enumeration per generated instance + history checking against a set-semantics model + scale instances (114-124 variables, every pair equated: literal identity and total assignment)"),
    "C13": dict(text="random instances of reified constructs are built on the real sat_core; for each instance ALL models of the network are enumerated through the public API (sat_core::check) and compared with the truth table of the formula, so each instance is decided exhaustively while the space of instances is sampled",
                note="trusts the harness's truth tables and the enumeration through sat_core::check; instances have at most ~20 propositional variables",
                technique="runtime monitoring: exhaustive model enumeration per generated instance vs truth table"),
    "C15": dict(text="every operator form of rational/inf_rational/lin executed on the real classes over an exhaustively enumerated small operand domain plus random operands, each result compared with Python Fraction arithmetic and checked for canonical form",
                note="trusts Python's fractions module and the harness's parsing of the driver output; operands are bounded so that no 64-bit overflow can occur",
                technique=T_DIFF),
}
CHECKS["C16"] = dict(text="(a) thousands of random token streams tokenised by the real lexer and by a reference tokenizer written from the token table; (b) one small valid program per declaration/statement shape must be read; (c) hundreds of programs pinning fresh variables to random constant expression trees (all operators, division chains, redundant parentheses, random layout and comments, a method with a return value) run through read+solve on Debug and Release builds - the solution must report exactly the value the expression denotes; (d) the generated valid programs of the constraint and planning families must be accepted (no error other than unsolvable / inconsistent)",
                     note="trusts the reference tokenizer/evaluator; mixing different operators of one precedence level without parentheses, '(x)+1' (a cast) and numerals beyond 64 bits are not generated; typedef is not exercised (semantics undocumented)",
                     technique="runtime monitoring: differential execution of lexer/reader/solver against a reference tokenizer and exact evaluator")
CHECKS["C01"] = dict(text="generated RIDDLE problems (constraint networks over real/int/bool and over time points handled by difference logic, objects, rules, state variables, resources, unplanted scheduling problems) run through read()+solve() in the configuration matrix h_max/h_add x CHECK_INCONSISTENCIES on/off x Debug/Release; every asserted constraint is evaluated with exact (rational, eps) arithmetic and Kleene booleans on the values the solution JSON exposes and must be True",
                     note="trusts the reference evaluator and the solution JSON as the exposed solution; one known finding (undecided theory atoms in non-monotone positions) is matched by a precise attribution rule using the lra hooks",
                     technique="runtime monitoring: reference evaluation of every asserted constraint on each reported solution across build configurations")
CHECKS["C02"] = dict(text="whenever oRatio answers 'unsolvable' on a generated problem the verdict is compared with ground truth: the planted assignment/plan the problem was built around (re-validated by the reference evaluator / plan checkers), z3 on the constraint-only fragment, and the verdict of the oRatio executable of the same build; generated planning problems are either solvable by construction or (sx family) decided by z3 on the scheduling semantics; every second constraint-network program is also run in an equivalent formulation (independent statements reordered, identifiers renamed, commutative arguments reordered, tautologies added) and must get the same verdict",
                     note="'no solution' is only concluded by z3 on the constraint fragment; timeouts are inconclusive",
                     technique="runtime monitoring: differential verdicts against planted solutions and an SMT reference")
CHECKS["C17"] = dict(text="generated class hierarchies (single/multiple/diamond inheritance, fields with initialisers, constructors with init lists and super-constructor calls, existential object fields), enums with unions (also with a single own value), predicates with object parameters (narrowing of a supertype variable), instances and variables declared in interleaved order and ==/!=/field constraints (numeric fields read through many-valued variables); a reference object model computes instance sets, field values and (by brute force) all satisfying value combinations, which are compared with the state exposed right after read() and with the solution on Debug and Release builds",
                     note="enum values are identifiable only by identity in the JSON (domains compared by size / inclusion / equality pattern); single-valued enums are not generated",
                     technique="runtime monitoring: differential execution against a reference object model with brute-force constraint semantics")
_PLAN_NOTE = "trusts the reference checkers over the solution JSON / extract_timelines() / solver_listener events; problems are small (<= ~12 atoms) and built around planted plans; timeouts are inconclusive"
CHECKS["C03"] = dict(text="generated problems with rules, sub-goals, sub-predicates, recursion that terminates only by unification, domains in which goals could only support each other in a circle, disjunctions with costs, state-variable timelines and resource-using activities; the causal graph recorded through the upstream solver_listener plus the final truth value of every phi/rho and the atom states are checked: every in-plan flaw expanded and resolved, unified atoms map to active atoms of the same predicate with equal arguments, rule sub-goals present and in plan, support acyclic",
                     note=_PLAN_NOTE, technique="runtime monitoring: offline checker over the recorded causal-graph event log and the reported plan")
CHECKS["C04"] = dict(text="state-variable problems built around planted schedules (touching atoms, zero-length atoms, all-constant atoms, free tau, tight horizons), unplanted scheduling problems (sx), atoms tied across timelines by relative constraints (sync), atoms created inside rules and disjunction branches (task), some read incrementally, and the shipped examples, in the configuration matrix; active atoms per instance compared pairwise with half-open intervals in exact arithmetic and the extracted timeline compared segment by segment",
                     note=_PLAN_NOTE, technique="runtime monitoring: interval-sweep oracle over reported plans and extracted timelines")
CHECKS["C05"] = dict(text="reusable-resource problems built around planted load profiles (exact fits, zero amounts, all-constant atoms, several resources, free resource variables), unplanted scheduling problems (sx), Use atoms created inside rules and disjunction branches (task) and the shipped examples; at every atom start the amounts of the covering active Use atoms are summed exactly and compared with the capacity, and every timeline segment's usage with the recomputed sum",
                     note=_PLAN_NOTE, technique="runtime monitoring: conservation/sweep oracle over reported plans and extracted timelines")
CHECKS["C06"] = dict(text="facts and goals on Interval/Impulse predicates at top level, inside plain / derived / smart-type-derived classes, with empty rule bodies and introduced by rules, agents, state variables, reusable and consumable resources with release/deadline constraints and tight horizons; every active temporal atom is checked against origin <= start <= end <= horizon, duration = end - start >= 0 (origin <= at <= horizon)",
                     note=_PLAN_NOTE, technique="runtime monitoring: direct evaluation of the temporal invariant on every reported atom")
CHECKS["C18"] = dict(text="three monitors (a tiny program whose solve() does not return within 30 s nor, re-run, within 150 s is a hang): (1) thousands of prefixes / delimiter edits / pathological literals / random byte and token strings given to riddle_parser and solver::read under ASan+UBSan with a 10 s / memory bound per input (thorough: plus libFuzzer on both entry points); (2) every solver-level workload family and the shipped examples through read()+solve() under ASan+UBSan with assertions on and on the Release build; (3) every network-level workload family under ASan+UBSan with assertions on and LeakSanitizer; any signal, abort, std::terminate, sanitizer report, failed assertion, reader non-termination or network-layer leak is a violation",
                     note="a clean sanitizer run is not memory safety; solver search that exceeds the budget is inconclusive; UBSan vptr is off (deliberate construction idiom) and signed overflow is logged only; leaks are judged for the network layer only",
                     technique="runtime monitoring: compiler sanitizers + assertion builds + watchdogs over hostile reader inputs and the other properties' workloads")
CHECKS["C19"] = dict(text="solved timeline problems (state variables, resources, interval/impulse predicates, agents, atoms tied across timelines by relative temporal constraints, activities that use resources through their rules; integer and fractional times) executed tick by tick with units_per_tick in {1/2, 1, 3/2, 2, 5} by a seeded scripted client that delays random starts/ends and reports failures; the executor_listener event log is checked by a per-atom state machine (time advance, exactly-once start/end in order, not before the planned time, not against the client's last answer, frozen values never move) and the plan after every tick by the C04/C05/C06 checkers, on Debug and Release builds",
                     note="liveness is restated as bounded progress (by horizon + a few ticks); execution_exception is a reported outcome that ends a history; histories that exceed 60 s are inconclusive",
                     technique="runtime monitoring: offline checker over the recorded executor event log with injected delays and failures")
CHECKS["C20"] = dict(text="dense LRA call sequences (one pivot fans out into many row-update tasks) executed on the PARALLELIZE=OFF build and on the PARALLELIZE=ON build with thread-pool sizes 1/2/4/16 and seeded yields/sleeps injected at the start and end of every row-update task (pivot_task hook); every observable (results, values, bounds, learnt clauses, theory conflicts, in order) must equal the sequential run and the run must terminate; the same workload runs under ThreadSanitizer (own build) and every report with a frame in the repository is a violation; the evidence reports tasks executed, observed concurrency and distinct completion orders",
                     note="schedules are sampled (pool size x injected delays x repetition) plus TSan's happens-before analysis, not enumerated; the pool size is forced through the guarded ORATIO_VERIF_POOL_SIZE knob",
                     technique="runtime monitoring: ThreadSanitizer + parallel/sequential trace differential under injected schedule perturbation")
NA_REASON = "check not built yet in this round (planned; see DESIGN.md)"

hooks_commits = subprocess.run(["git", "-C", "/repo", "log", "--format=%h", "--grep=ORATIO_VERIF"], stdout=subprocess.PIPE, text=True).stdout.split()

m = {
    "version": 1,
    "setup_cmd": "./vcheck setup",
    "hooks": {"guard": "ORATIO_VERIF",
              "enable": "every build variant except 'off' is configured with -DCMAKE_CXX_FLAGS=-DORATIO_VERIF by vlib/build.py; listener interface in smt/verif.h",
              "baseline_off_cmd": "./vcheck baseline-off", "source_commits": hooks_commits, "add_only": True},
    "engines": [{"name": "vcheck", "path": "vcheck", "serves_properties": sorted(CHECKS),
                 "kind_free_text": "runtime monitoring: C++ drivers linked against the freshly built library (hooks on) + Python oracles over the recorded traces"}],
    "checks": [],
    "not_applicable": [],
    "notes": "see DESIGN.md; known_findings.json lists fixed/known defects",
}
for p in props:
    pid = p["id"]
    if pid in CHECKS:
        c = CHECKS[pid]
        m["checks"].append({
            "property_id": pid,
            "quick_cmd": "./vcheck run %s --tier quick" % pid,
            "thorough_cmd": "./vcheck run %s --tier thorough" % pid,
            "evidence_file": "evidence/%s.json" % pid,
            "replay_cmd_template": "./vcheck replay {path}",
            "engine": "vcheck",
            "level_claimed": {"category": "exploration", "text": c["text"], "design_ref": "DESIGN.md section 3, " + pid},
            "level_note": c["note"],
            "technique": c["technique"],
        })
    else:
        m["not_applicable"].append({"property_id": pid, "reason": NA_REASON})
json.dump(m, open(os.path.join(HERE, "MANIFEST.json"), "w"), indent=1)
print("claimed:", sorted(CHECKS))
