#!/usr/bin/env python3
"""Mutation trial: apply a patch to a scratch copy of /repo, optionally run the pinned test suite on it,
run the named checks against it (VERIF_REPO), print what they report, and remove the scratch copy.

usage: tools/mutate.py [--tests] [--keep] [--seed N] <patch-file | -e 'file:::old:::new'> <check> [<check> ...]
"""
import os
import shutil
import subprocess
import sys
import time

VERIF = os.path.dirname(os.path.dirname(os.path.abspath(__file__)))


def main():
    args = sys.argv[1:]
    tests = "--tests" in args
    keep = "--keep" in args
    args = [a for a in args if a not in ("--tests", "--keep")]
    tier = "quick"
    if "--tier" in args:
        i = args.index("--tier")
        tier = args[i + 1]
        del args[i:i + 2]
    seed = "1"
    if "--seed" in args:
        i = args.index("--seed")
        seed = args[i + 1]
        del args[i:i + 2]
    edits = []
    patch = None
    while args and args[0] == "-e":
        edits.append(args[1])
        args = args[2:]
    if not edits:
        patch = os.path.abspath(args[0])
        args = args[1:]
    checks = args
    name = "m%d" % os.getpid()
    scratch = "/var/tmp/oratio-scratch/%s" % name
    broot = scratch + "-build"
    os.makedirs("/var/tmp/oratio-scratch", exist_ok=True)
    subprocess.run(["rsync", "-a", "--exclude", "_build", "--exclude", ".git", "/repo/", scratch + "/"], check=True)
    rc = 0
    try:
        if patch:
            p = subprocess.run(["patch", "-p1", "-d", scratch, "-i", patch], stdout=subprocess.PIPE, stderr=subprocess.STDOUT, text=True)
            if p.returncode != 0:
                print("PATCH FAILED\n" + p.stdout)
                return 3
        for e in edits:
            f, old, new = e.split(":::")
            path = os.path.join(scratch, f)
            s = open(path).read()
            if s.count(old) < 1:
                print("EDIT FAILED: pattern not found in", f)
                return 3
            open(path, "w").write(s.replace(old, new, 1))
        env = dict(os.environ, VERIF_REPO=scratch, VERIF_BUILD_ROOT=broot, VERIF_SEED=seed,
                   VERIF_EVID_DIR=broot + "/evidence", VERIF_REPLAY_DIR=broot + "/replays")
        if tests:
            t0 = time.time()
            p = subprocess.run(["python3", os.path.join(VERIF, "vlib", "build.py"), "baseline-off"], env=env, stdout=subprocess.PIPE, stderr=subprocess.STDOUT, text=True)
            tail = [l for l in p.stdout.split("\n") if "tests passed" in l or "Failed" in l or "FAILED" in l or "rror" in l][:8]
            print("TESTS rc=%d %s (%.0fs)" % (p.returncode, " | ".join(tail), time.time() - t0))
        for c in checks:
            t0 = time.time()
            p = subprocess.run([os.path.join(VERIF, "vcheck"), "run", c, "--tier", tier], env=env, stdout=subprocess.PIPE, stderr=subprocess.STDOUT, text=True)
            lines = p.stdout.split("\n")
            keys = [l.strip() for l in lines if l.strip().startswith("key:")]
            summ = [l for l in lines if l.startswith(c.upper() + " tier")]
            harn = [l for l in lines if l.startswith("HARNESS")][:3]
            print("CHECK %s rc=%d %.0fs %s" % (c, p.returncode, time.time() - t0, summ[0] if summ else ""))
            for k in keys[:16]:
                print("    " + k)
            for h in harn:
                print("    " + h[:300])
            rc = max(rc, p.returncode)
    finally:
        if not keep:
            shutil.rmtree(scratch, ignore_errors=True)
            shutil.rmtree(broot, ignore_errors=True)
    return 0


if __name__ == "__main__":
    sys.exit(main())
