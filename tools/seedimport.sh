#!/bin/sh
# imports the deliverables of a seeded-change sub-agent (/tmp/seedwork/out-<id>) into /verif/seeded/<id>-a (and -b), removes its worktree
id=$1
round=${2:-1}
if [ "$round" = 4 ]; then src=/tmp/seedwork/out4-$id; s1=g; s2=h; wt=/tmp/seedwork/wt4-$id; elif [ "$round" = 3 ]; then src=/tmp/seedwork/out3-$id; s1=e; s2=f; wt=/tmp/seedwork/wt3-$id; elif [ "$round" = 2 ]; then src=/tmp/seedwork/out2-$id; s1=c; s2=d; wt=/tmp/seedwork/wt2-$id; else src=/tmp/seedwork/out-$id; s1=a; s2=b; wt=/tmp/seedwork/wt-$id; fi
cd "$(dirname "$0")/.."
imp() { # suffix patch readme demo
  [ -f "$src/$2" ] || return 0
  d=seeded/$id-$1
  mkdir -p $d
  cp "$src/$2" $d/patch.diff
  [ -f "$src/$3" ] && cp "$src/$3" $d/README.md
  [ -d "$src/$4" ] && { rm -rf $d/demo; cp -r "$src/$4" $d/demo; }
  find $d/demo -type f \( -size +300k -o -name '*.o' -o -name '*.so' -o -perm -u+x ! -name '*.sh' ! -name '*.py' \) -delete 2>/dev/null
  [ -f $d/meta.json ] || python3 - "$d" "$id" <<'PY'
import json, sys, re
d, pid = sys.argv[1:3]
files = re.findall(r"^\+\+\+ b/(\S+)", open(d + "/patch.diff").read(), re.M)
json.dump({"property": pid, "source": "independent sub-agent (given only the property text and a scratch worktree)", "files": files}, open(d + "/meta.json", "w"), indent=1)
PY
}
[ -f "$src/patch.diff" ] || { echo "no patch.diff in $src yet: nothing imported, worktree kept"; exit 1; }
imp $s1 patch.diff README.md demo
imp $s2 patch2.diff README2.md demo2
git -C /repo worktree remove --force $wt 2>/dev/null
rm -rf $wt
ls seeded | grep "^$id"
