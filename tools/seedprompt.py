#!/usr/bin/env python3
"""Writes the brief a fresh sub-agent gets for a seeded-mutation trial: the property text and its scratch worktree, nothing from /verif."""
import json
import sys

work = "/tmp/seedwork"
for l in open("/verif/properties.jsonl"):
    p = json.loads(l)
    pid = p["id"]
    if sys.argv[1:] and pid not in sys.argv[1:]:
        continue
    anchors = p.get("anchors", {})
    mech = "\n".join("  - %s (%s)" % (m.get("name"), m.get("where")) for m in anchors.get("mechanism", []))
    files = ", ".join(anchors.get("files", []))
    txt = """You are given a scratch git worktree of the C++ project pstlab/oRatio (a timeline planner with its own SAT core, LRA simplex,
difference logic, object-variable theory and the RIDDLE language) at {work}/wt-{pid} . Work ONLY inside that directory and {work}/out-{pid} .
Do not read or touch /repo, /verif or any other directory of this machine apart from system headers and tools; there is no network.

PROPERTY {pid}: {title}

Statement: {statement}

Quantified over: {quant}

Why the existing tests cannot settle it: {why}

Files the property is anchored in: {files}
Mechanisms:
{mech}

YOUR TASK: play the part of a developer who introduces a realistic regression. Produce a source change to the worktree (NOT to tests, NOT to
CMake files, NOT to examples) that
  1. still compiles,
  2. still passes the project's complete pinned test suite (82 tests), and
  3. BREAKS the property above, in a way that needs something specific to manifest (a particular shape of input, call sequence, history or
     schedule - not something that breaks on every run), the kind of slip a maintainer could plausibly make (off-by-one, wrong sign, dropped
     case, wrong variable, missing update on one path, lost lock, stale cache ...). No obviously malicious or absurd code, no new files,
     keep the diff small (a few lines).
Build and test exactly like this (pinned configuration; use at most 4 build jobs, other work shares the machine):
    cd {work}/wt-{pid} && cmake -G Ninja -S . -B _build -DCMAKE_BUILD_TYPE=RelWithDebInfo > /dev/null && cmake --build _build -j4 2>&1 | tail -3
    ctest --test-dir _build -j4 --timeout 900 2>&1 | tail -5          # must say 100% tests passed ... out of 82
Then DEMONSTRATE the breakage against the real code: a small program or RIDDLE file plus the command that runs it and the output showing
the property violated with your change, and the same command's output on the unchanged code (save your change with `git diff > ../out-{pid}/patch.diff`, `git checkout -- .`, rebuild, run, then `git apply` it again - do NOT use
`git stash`: the stash is shared with other worktrees of this repository and other people work in those) showing the property holds there. You may write a small C++ driver linked against the built libraries (_build/lib) or use
the `oRatio` executable (_build/bin/oRatio <input.rddl> <output.json>; look at main.cpp and the tests/ directories for usage).
If your first idea is killed by the test suite or you cannot demonstrate it, try another idea; spend your effort on making one change solid.
If you have time left, produce a second, mechanistically different change the same way (suffix its files with 2).

DELIVERABLES in {work}/out-{pid}/ :
  patch.diff        output of `git diff` in the worktree for the change (only source files of the project)
  demo/             every file needed for the demonstration (inputs, driver source, a run.sh that builds/runs it given the worktree path)
  README.md         what the change is, why a maintainer could make it, what specific input/sequence it needs, the exact observed outputs with
                    and without the change, and confirmation that the build and all 82 tests pass with the change applied (paste the ctest summary line)
  (patch2.diff, demo2/, README2.md for the optional second change)
Leave the worktree with the change reverted (git checkout -- . ; untracked build directories may stay). Your final message: a 5-line summary.
""".format(work=work, pid=pid, title=p["title"], statement=p["statement"], quant=p["quantifier"]["text"], why=p["why_tests_cant"], files=files, mech=mech)
    open("%s/prompt-%s.md" % (work, pid), "w").write(txt)
    print(pid, len(txt))
