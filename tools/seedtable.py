#!/usr/bin/env python3
"""Prints the markdown table of the seeded changes (seeded/*/meta.json) for DESIGN.md section 7.5."""
import json
import os
import re

HERE = os.path.dirname(os.path.dirname(os.path.abspath(__file__)))
rows = []
for d in sorted(os.listdir(os.path.join(HERE, "seeded"))):
    mp = os.path.join(HERE, "seeded", d, "meta.json")
    if not os.path.exists(mp):
        continue
    m = json.load(open(mp))
    desc = m.get("change")
    if not desc:
        rp = os.path.join(HERE, "seeded", d, "README.md")
        if os.path.exists(rp):
            for line in open(rp):
                if line.startswith("#"):
                    desc = re.sub(r"^#+\s*", "", line.strip())
                    desc = re.sub(r"^(C\d+\s*)?(seeded\s+)?(regression|seed|change)\s*\d*\s*[:\-–]\s*", "", desc, flags=re.I)
                    break
    files = ", ".join(os.path.basename(f) for f in m.get("files", [])) or "-"
    caught = ", ".join(m.get("caught_by", [])) or "**none**"
    if m.get("caught_on_final_tree") == []:
        caught += " (earlier trees; not observable on the final tree, see meta.json)"
    elif m.get("final_tree", {}).get("quick_seeds_1_2_3") == "not reported":
        caught += " (thorough tier only on the final tree, see meta.json)"
    elif m.get("note") and not m.get("caught_by"):
        caught = "**none** (see meta.json)"
    keys = []
    for c in m.get("caught_by", []):
        for k in m["checks"][c]["keys"][:2]:
            keys.append(k.replace("key: ", ""))
    tests = m.get("tests", {}).get("summary", "")
    rows.append("| %s | %s | %s | %s | %s |" % (d, files, (desc or "").replace("|", "/")[:170], caught, "; ".join(keys)[:160].replace("|", "/")))
table = "| seed | file(s) | change | reported by (quick tier) | first keys |\n|---|---|---|---|---|\n" + "\n".join(rows)
import sys
if "--update-design" in sys.argv:
    p = os.path.join(HERE, "DESIGN.md")
    s = open(p).read()
    b, e = "<!-- SEEDTABLE BEGIN -->", "<!-- SEEDTABLE END -->"
    s = s[:s.index(b) + len(b)] + "\n" + table + "\n" + s[s.index(e):]
    open(p, "w").write(s)
else:
    print(table)
