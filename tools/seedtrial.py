#!/usr/bin/env python3
"""Runs the checks against a seeded change kept in /verif/seeded/<id>/ (on a scratch copy of /repo, never in /repo) and records the verdict in meta.json.

usage: tools/seedtrial.py <seeded-dir> <check> [<check> ...] [--no-tests] [--tier thorough]
"""
import json
import os
import re
import subprocess
import sys
import time

HERE = os.path.dirname(os.path.dirname(os.path.abspath(__file__)))


def main():
    args = sys.argv[1:]
    tests = "--no-tests" not in args
    args = [a for a in args if a != "--no-tests"]
    d = os.path.abspath(args[0])
    checks = args[1:]
    meta_p = os.path.join(d, "meta.json")
    meta = json.load(open(meta_p)) if os.path.exists(meta_p) else {}
    cmd = ["python3", os.path.join(HERE, "tools", "mutate.py")] + (["--tests"] if tests else []) + [os.path.join(d, "patch.diff")] + checks
    t0 = time.time()
    p = subprocess.run(cmd, stdout=subprocess.PIPE, stderr=subprocess.STDOUT, text=True)
    print(p.stdout)
    cur = None
    res = meta.setdefault("checks", {})
    for line in p.stdout.split("\n"):
        m = re.match(r"TESTS rc=(\d+) (.*)", line)
        if m:
            meta["tests"] = {"rc": int(m.group(1)), "summary": m.group(2)[:200]}
        m = re.match(r"CHECK (\S+) rc=(\d+) (\d+)s (.*)", line)
        if m:
            cur = m.group(1).upper()
            res[cur] = {"rc": int(m.group(2)), "seconds": int(m.group(3)), "summary": m.group(4)[:200], "keys": [], "when": time.strftime("%F %T")}
        elif cur and line.strip().startswith("key:"):
            res[cur]["keys"].append(line.strip()[:300])
    meta["caught_by"] = sorted(c for c, r in res.items() if r["rc"] == 1)
    json.dump(meta, open(meta_p, "w"), indent=1)
    print("caught_by:", meta["caught_by"], "(%.0fs)" % (time.time() - t0))


if __name__ == "__main__":
    main()
