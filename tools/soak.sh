#!/bin/sh
# soak: every check's quick (or $2) tier for the given seeds, evidence and replays outside /verif; prints one line per run
# usage: tools/soak.sh "2 3 4" [quick|thorough] [C01 C02 ...]
seeds="$1"; tier="${2:-quick}"; shift; shift
checks="${*:-C01 C02 C03 C04 C05 C06 C07 C08 C09 C10 C11 C12 C13 C14 C15 C16 C17 C18 C19 C20}"
cd "$(dirname "$0")/.."
for s in $seeds; do
  for c in $checks; do
    out=/var/tmp/oratio-soak/$c-$tier-$s
    mkdir -p $out
    t0=$(date +%s)
    VERIF_SEED=$s VERIF_EVID_DIR=$out VERIF_REPLAY_DIR=$out/replays ./vcheck run $c --tier $tier > $out/log.txt 2>&1
    rc=$?
    echo "$c seed=$s tier=$tier rc=$rc $(( $(date +%s) - t0 ))s $(grep -c '^VIOLATION' $out/log.txt) viol $(grep -c '^KNOWN' $out/log.txt) known | $(grep -E '^C[0-9]+ tier' $out/log.txt | cut -c1-160)"
  done
done
