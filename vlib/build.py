"""Build manager: always builds from $VERIF_REPO's *current working tree*.

Every variant lives in $VERIF_BUILD_ROOT/<variant>-<treehash>; the hash covers every source /
CMake file of the repository (content, not mtime), so an edited-and-restored file can never leave
stale objects behind.  A per-variant flock lets concurrent checks share one build.  Older hashes of
the same variant are pruned.
"""
import fcntl
import hashlib
import os
import shutil
import subprocess
import sys
import time

REPO = os.environ.get("VERIF_REPO", "/repo")
ROOT = os.environ.get("VERIF_BUILD_ROOT", "/var/tmp/oratio-verif")
VERIF = os.path.dirname(os.path.dirname(os.path.abspath(__file__)))
GUARD = "ORATIO_VERIF"

SRC_EXT = (".cpp", ".h", ".txt", ".in", ".cmake")
SKIP_DIRS = {".git", "_build", "build", "gui", "api", "examples", ".vscode"}


class BuildError(Exception):
    pass


def tree_hash(repo=None):
    repo = repo or REPO
    h = hashlib.sha256()
    for base, dirs, files in os.walk(repo):
        dirs[:] = sorted(d for d in dirs if d not in SKIP_DIRS)
        for f in sorted(files):
            if f.endswith(SRC_EXT):
                p = os.path.join(base, f)
                h.update(os.path.relpath(p, repo).encode())
                with open(p, "rb") as fh:
                    h.update(hashlib.sha256(fh.read()).digest())
    return h.hexdigest()[:16]


_SAN_ASAN = "-fsanitize=address,undefined -fno-sanitize=vptr -fno-sanitize-recover=all -fsanitize-recover=signed-integer-overflow -fno-omit-frame-pointer"
_SAN_TSAN = "-fsanitize=thread -fno-omit-frame-pointer"

# variant -> (build type, extra cxx flags, cmake options, hooks on?)
VARIANTS = {
    "dbg": ("Debug", "", ["-DBUILD_EXECUTOR=ON"], True),
    "rel": ("RelWithDebInfo", "", ["-DBUILD_EXECUTOR=ON"], True),
    "asan": ("Debug", "-O1 " + _SAN_ASAN, ["-DBUILD_EXECUTOR=ON"], True),
    "par": ("Debug", "", ["-DPARALLELIZE=ON"], True),
    "seq": ("Debug", "", ["-DPARALLELIZE=OFF"], True),
    "par-tsan": ("Debug", "-O1 " + _SAN_TSAN, ["-DPARALLELIZE=ON"], True),
    "off": ("RelWithDebInfo", "", [], False),
}
# configuration matrix for the solver-level properties
for _h in ("h_max", "h_add"):
    for _ci in ("OFF", "ON"):
        for _bt, _btn in (("Debug", "d"), ("RelWithDebInfo", "r")):
            VARIANTS["cfg-%s-%s-%s" % (_h, _ci.lower(), _btn)] = (
                _bt, "", ["-DBUILD_EXECUTOR=ON", "-DHEURISTIC_TYPE=" + _h, "-DCHECK_INCONSISTENCIES=" + _ci], True)
# libFuzzer build (clang): every library instrumented for coverage, ASan and UBSan
VARIANTS["fuzz"] = ("Debug", "-O1 -fsanitize=fuzzer-no-link,address,undefined -fno-sanitize=vptr,object-size -fno-sanitize-recover=all -fno-omit-frame-pointer", ["-DCMAKE_CXX_COMPILER=clang++-14", "-DBUILD_TESTING=OFF"], True)
VARIANTS["cfg-dl"] = ("Debug", "", ["-DBUILD_EXECUTOR=ON", "-DTEMPORAL_NETWORK_TYPE=DL"], True)
VARIANTS["cfg-h2"] = ("Debug", "", ["-DBUILD_EXECUTOR=ON", "-DHEURISTIC_TYPE=h2_add"], True)


def _run(cmd, cwd=None, env=None, log=None):
    p = subprocess.run(cmd, cwd=cwd, env=env, stdout=subprocess.PIPE, stderr=subprocess.STDOUT, text=True)
    if log:
        with open(log, "a") as fh:
            fh.write("$ " + " ".join(cmd) + "\n" + p.stdout + "\n")
    if p.returncode != 0:
        raise BuildError("command failed: %s\n%s" % (" ".join(cmd), p.stdout[-6000:]))
    return p.stdout


def _env():
    e = dict(os.environ)
    e["CCACHE_DIR"] = os.path.join(ROOT, "ccache")
    e["CCACHE_BASEDIR"] = REPO
    e.pop("VERBOSE", None)
    return e


def build_dir(variant, th=None):
    return os.path.join(ROOT, "%s-%s" % (variant, th or tree_hash()))


def ensure(variant, targets=None):
    """Configure + build `variant` of the current tree; returns the build directory."""
    if variant not in VARIANTS:
        raise BuildError("unknown variant " + variant)
    btype, flags, opts, hooks = VARIANTS[variant]
    th = tree_hash()
    os.makedirs(ROOT, exist_ok=True)
    bdir = build_dir(variant, th)
    lock = open(os.path.join(ROOT, ".lock-" + variant), "w")
    fcntl.flock(lock, fcntl.LOCK_EX)
    try:
        stamp = os.path.join(bdir, ".verif-built")
        if os.path.exists(stamp):
            return bdir
        # prune older hashes of the same variant
        for d in os.listdir(ROOT):
            if d.startswith(variant + "-") and d != os.path.basename(bdir) and len(d) == len(variant) + 17:
                shutil.rmtree(os.path.join(ROOT, d), ignore_errors=True)
        shutil.rmtree(bdir, ignore_errors=True)
        os.makedirs(bdir)
        cxx = ("-Wno-error " + ("-D%s " % GUARD if hooks else "") + flags).strip()
        cmd = ["cmake", "-G", "Ninja", "-S", REPO, "-B", bdir, "-DCMAKE_BUILD_TYPE=" + btype,
               "-DCMAKE_CXX_FLAGS=" + cxx, "-DCMAKE_CXX_COMPILER_LAUNCHER=ccache"] + opts
        log = os.path.join(bdir, "verif-build.log")
        _run(cmd, env=_env(), log=log)
        _run(["cmake", "--build", bdir, "-j", "16"] + (["--target"] + targets if targets else []), env=_env(), log=log)
        open(stamp, "w").write(time.strftime("%F %T") + "\n")
        return bdir
    finally:
        fcntl.flock(lock, fcntl.LOCK_UN)
        lock.close()


INC_DIRS = ["smt", "smt/arith", "smt/arith/lra", "smt/arith/dl", "smt/ov", "smt/json", "smt/concurrent", "riddle", "core", "solver",
            "solver/flaws", "solver/types", "solver/heuristics", "executor"]
BIN_INC = ["smt", "smt/json", "smt/concurrent", "riddle", "core", "solver", "executor"]


def driver(variant, name, libs=("smt", "json"), extra_flags="", compiler="g++"):
    """Compile /verif/drivers/<name>.cpp against `variant`; returns the executable path."""
    bdir = ensure(variant)
    btype, flags, opts, hooks = VARIANTS[variant]
    src = os.path.join(VERIF, "drivers", name + ".cpp")
    hdrs = [os.path.join(VERIF, "drivers", f) for f in os.listdir(os.path.join(VERIF, "drivers")) if f.endswith(".h")]
    h = hashlib.sha256(open(src, "rb").read())
    for hd in sorted(hdrs):
        h.update(open(hd, "rb").read())
    h.update(extra_flags.encode())
    out = os.path.join(bdir, "verif-drv-%s-%s" % (name, h.hexdigest()[:10]))
    lock = open(os.path.join(ROOT, ".lock-drv-%s-%s" % (variant, name)), "w")
    fcntl.flock(lock, fcntl.LOCK_EX)
    try:
        if os.path.exists(out):
            return out
        opt = "-O2 -g" if btype != "Debug" else "-O1 -g"
        if btype != "Debug":
            opt += " -DNDEBUG"
        cmd = ["ccache", compiler, "-std=gnu++17"] + opt.split() + ["-Wno-error"]
        if hooks:
            cmd.append("-D" + GUARD)
        if "PARALLELIZE=ON" in " ".join(opts):
            cmd += ["-DPARALLELIZE", "-pthread"]
        if "BUILD_EXECUTOR=ON" in " ".join(opts):
            cmd.append("-DBUILD_LISTENERS")
        cmd += flags.split() + extra_flags.split()
        for d in INC_DIRS:
            cmd.append("-I" + os.path.join(REPO, d))
        for d in BIN_INC:
            cmd.append("-I" + os.path.join(bdir, d))
        cmd.append("-I" + os.path.join(VERIF, "drivers"))
        cmd += [src, "-o", out + ".tmp", "-L" + os.path.join(bdir, "lib"), "-Wl,-rpath," + os.path.join(bdir, "lib")]
        for l in libs:
            cmd.append("-l" + l)
        cmd.append("-ldl")
        _run(cmd, env=_env(), log=os.path.join(bdir, "verif-build.log"))
        os.rename(out + ".tmp", out)
        return out
    finally:
        fcntl.flock(lock, fcntl.LOCK_UN)
        lock.close()


def baseline_off():
    """Pinned configuration, guard OFF, own build dir; runs the repository's test suite."""
    bdir = ensure("off")
    p = subprocess.run(["ctest", "--test-dir", bdir, "-j8", "--timeout", "900"], stdout=subprocess.PIPE, stderr=subprocess.STDOUT, text=True)
    sys.stdout.write(p.stdout[-3000:])
    return p.returncode


if __name__ == "__main__":
    if sys.argv[1:2] == ["baseline-off"]:
        sys.exit(baseline_off())
    for v in sys.argv[1:]:
        print(v, ensure(v))
