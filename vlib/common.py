"""Shared plumbing: seeds, verdict bookkeeping, known-findings matching, evidence files, replays."""
import hashlib
import json
import os
import random
import sys
import time
import traceback
from concurrent.futures import ProcessPoolExecutor

VERIF = os.path.dirname(os.path.dirname(os.path.abspath(__file__)))
EVID = os.environ.get("VERIF_EVID_DIR") or os.path.join(VERIF, "evidence")      # overridden only by mutation trials
REPLAYS = os.environ.get("VERIF_REPLAY_DIR") or os.path.join(VERIF, "replays")
KNOWN = os.path.join(VERIF, "known_findings.json")
NPROC = int(os.environ.get("VERIF_JOBS", "16"))


def seed():
    try:
        return int(os.environ.get("VERIF_SEED", "1"))
    except ValueError:
        return 1


def tier(default="quick"):
    t = os.environ.get("VERIF_TIER", default)
    return t if t in ("quick", "thorough") else default


def rng(*salt):
    h = hashlib.sha256(("|".join(str(s) for s in (seed(),) + salt)).encode()).digest()
    return random.Random(int.from_bytes(h[:8], "big"))


def fingerprint(obj):
    return hashlib.sha256(json.dumps(obj, sort_keys=True, default=str).encode()).hexdigest()[:16]


def load_known():
    if not os.path.exists(KNOWN):
        return []
    with open(KNOWN) as fh:
        return json.load(fh).get("findings", [])


class Result:
    """Collects what one check run observed."""

    def __init__(self, pid, tier_, rule, level="exploration"):
        self.pid = pid
        self.tier = tier_
        self.rule = rule
        self.level = level
        self.t0 = time.time()
        self.evaluations = 0
        self.nontrivial = set()
        self.samples = []
        self.counters = {}
        self.inconclusive = {}
        self.violations = []      # (key, what, witness)
        self.assumptions = []
        self.harness_errors = []
        self.gates = []           # (description, ok)
        self.exhaustive = None

    # ---- recording
    def case(self, fp=None, nontrivial=False, sample=None):
        self.evaluations += 1
        if nontrivial and fp is not None:
            self.nontrivial.add(fp)
        if sample is not None and len(self.samples) < 5:
            self.samples.append(sample)

    def count(self, key, n=1):
        self.counters[key] = self.counters.get(key, 0) + n

    def inconc(self, why, n=1):
        self.inconclusive[why] = self.inconclusive.get(why, 0) + n

    def violation(self, key, what, witness):
        self.violations.append((key, what, witness))

    def gate(self, desc, ok):
        self.gates.append((desc, bool(ok)))

    def merge(self, d):
        """Merge a worker's partial dict (as produced by Partial.dump())."""
        self.evaluations += d["evaluations"]
        self.nontrivial.update(d["nontrivial"])
        for s in d["samples"]:
            if len(self.samples) < 5:
                self.samples.append(s)
        for k, v in d["counters"].items():
            self.count(k, v)
        for k, v in d["inconclusive"].items():
            self.inconc(k, v)
        self.violations.extend(tuple(v) for v in d["violations"])
        self.harness_errors.extend(d.get("harness_errors", []))

    # ---- finishing
    def finish(self):
        os.makedirs(EVID, exist_ok=True)
        known = [k for k in load_known() if k.get("property") == self.pid]
        known_open = {k["key"]: k for k in known if k.get("status") == "known"}
        reported = {}
        matched = {}
        for key, what, witness in self.violations:
            if key in known_open:
                matched.setdefault(key, what)
                continue
            if key in reported:
                reported[key][2] += 1
                continue
            reported[key] = [what, witness, 1]
        rc = 0
        for key, what in sorted(matched.items()):
            print("KNOWN-FINDING: property=%s %s (%s)" % (self.pid, known_open[key].get("what", what), key))
        if reported:
            os.makedirs(REPLAYS, exist_ok=True)
            for key, (what, witness, n) in sorted(reported.items()):
                path = os.path.join(REPLAYS, "%s-%s.json" % (self.pid, hashlib.sha256(key.encode()).hexdigest()[:12]))
                with open(path, "w") as fh:
                    json.dump({"property": self.pid, "key": key, "what": what, "occurrences": n, "seed": seed(),
                               "tier": self.tier, "witness": witness}, fh, indent=1, default=str)
                print("VIOLATION property=%s replay=%s" % (self.pid, path))
                print("  key: %s\n  what: %s (x%d)" % (key, what, n))
            rc = 1
        total_inc = sum(self.inconclusive.values())
        if self.evaluations == 0:
            self.harness_errors.append("no case was executed")
        elif total_inc > 0.2 * (self.evaluations + total_inc):
            self.harness_errors.append("more than 20%% of the cases were inconclusive (%d of %d)" % (total_inc, self.evaluations + total_inc))
        for desc, ok in self.gates:
            if not ok:
                self.harness_errors.append("coverage gate not met: " + desc)
        if len(self.nontrivial) < 2:
            self.harness_errors.append("fewer than 2 distinct non-trivial cases")
        cov = {
            "evaluations": self.evaluations,
            "distinct_nontrivial": len(self.nontrivial),
            "rule": self.rule,
            "samples": self.samples if self.samples else ["<none>"],
            "counters": dict(sorted(self.counters.items())),
            "inconclusive": dict(sorted(self.inconclusive.items())),
            "gates": [{"gate": d, "met": ok} for d, ok in self.gates],
            "known_findings_matched": sorted(matched),
            "violation_keys": sorted(reported),
            "verdict": "violated" if rc else ("inconclusive" if self.harness_errors else "held on what was observed"),
        }
        if self.exhaustive is not None:
            cov["exhaustive"] = bool(self.exhaustive)
        ev = {
            "property_id": self.pid, "tier": self.tier, "seed": seed(), "level": self.level,
            "coverage": cov, "assumptions": self.assumptions,
            "wall_s": round(time.time() - self.t0, 2), "violations": len(reported),
        }
        with open(os.path.join(EVID, self.pid + ".json"), "w") as fh:
            json.dump(ev, fh, indent=1, default=str)
        print("%s tier=%s seed=%d: %d cases, %d distinct non-trivial, %d inconclusive, %d violation key(s), %d known; %.1fs" % (
            self.pid, self.tier, seed(), self.evaluations, len(self.nontrivial), total_inc, len(reported), len(matched), time.time() - self.t0))
        for k, v in sorted(self.counters.items()):
            print("   %-48s %d" % (k, v))
        for e in self.harness_errors[:20]:
            print("HARNESS: " + e)
        if rc == 0 and self.harness_errors:
            rc = 2
        return rc


class Partial:
    """Worker-side accumulator with the same recording API as Result (picklable dump)."""

    def __init__(self):
        self.evaluations = 0
        self.nontrivial = set()
        self.samples = []
        self.counters = {}
        self.inconclusive = {}
        self.violations = []
        self.harness_errors = []

    case = Result.case
    count = Result.count
    inconc = Result.inconc
    violation = Result.violation

    def dump(self):
        return {"evaluations": self.evaluations, "nontrivial": list(self.nontrivial), "samples": self.samples,
                "counters": self.counters, "inconclusive": self.inconclusive, "violations": self.violations,
                "harness_errors": self.harness_errors}


def _wrap(args):
    fn, a = args
    try:
        return fn(*a)
    except Exception:
        p = Partial()
        p.harness_errors.append("worker crashed: " + traceback.format_exc()[-1500:])
        return p.dump()


def pmap(fn, arglist, result, jobs=None):
    """Run fn(*args) -> Partial.dump() in worker processes and merge into result."""
    jobs = jobs or NPROC
    if jobs <= 1 or len(arglist) <= 1:
        for a in arglist:
            result.merge(_wrap((fn, a)))
        return
    with ProcessPoolExecutor(max_workers=jobs) as ex:
        for d in ex.map(_wrap, [(fn, a) for a in arglist]):
            result.merge(d)
