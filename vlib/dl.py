"""Reference difference-logic semantics: exact all-pairs shortest paths over (rational, eps) weights.

A weight is a pair (Fraction, Fraction) compared lexicographically; None is +infinity.
A constraint (frm, to, w) means  to - frm <= w  (edge frm -> to of weight w).
For IDL weights are (Fraction(int), 0) and the negation of  to - frm <= d  is  frm - to <= -d-1;
for RDL it is  frm - to <= -d - eps.
"""
from fractions import Fraction

ZERO = (Fraction(0), Fraction(0))


def w_add(a, b):
    if a is None or b is None:
        return None
    return (a[0] + b[0], a[1] + b[1])


def w_lt(a, b):
    """a < b with None = +inf"""
    if a is None:
        return False
    if b is None:
        return True
    return a < b


def w_le(a, b):
    return not w_lt(b, a)


def w_neg(a):
    return (-a[0], -a[1])


def negate(kind, frm, to, w):
    """the difference constraint equivalent to NOT(to - frm <= w)"""
    if kind == "idl":
        return (to, frm, (-w[0] - 1, Fraction(0)))
    return (to, frm, (-w[0], -w[1] - 1))


def closure(n, constraints):
    """returns (dist matrix, consistent?)"""
    d = [[None] * n for _ in range(n)]
    for i in range(n):
        d[i][i] = ZERO
    for (f, t, w) in constraints:
        if w_lt(w, d[f][t]):
            d[f][t] = w
    for k in range(n):
        dk = d[k]
        for i in range(n):
            dik = d[i][k]
            if dik is None:
                continue
            di = d[i]
            for j in range(n):
                if dk[j] is None:
                    continue
                s = (dik[0] + dk[j][0], dik[1] + dk[j][1])
                if di[j] is None or s < di[j]:
                    di[j] = s
    ok = all(not w_lt(d[i][i], ZERO) for i in range(n))
    return d, ok


def consistent(n, constraints):
    return closure(n, constraints)[1]


def parse_w(x, kind):
    """driver output -> weight ('idl': int or null; 'rdl': 'n/d,n/d' with 1/0 = inf)"""
    if x is None:
        return None
    if kind == "idl":
        return (Fraction(x), Fraction(0))
    a, b = x.split(",")
    n, dd = a.split("/")
    if int(dd) == 0:
        return None if int(n) > 0 else "neginf"
    e_n, e_d = b.split("/")
    return (Fraction(int(n), int(dd)), Fraction(int(e_n), int(e_d)) if int(e_d) else Fraction(0))


def fmt_w(w):
    if w is None:
        return "inf"
    if w[1] == 0:
        return str(w[0])
    return "%s%s%seps" % (w[0], "+" if w[1] > 0 else "", w[1])


def fmt_m(m):
    return [[fmt_w(x) for x in row] for row in m]
