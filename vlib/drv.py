"""Running line-oriented drivers with crash attribution."""
import os
import re
import resource
import signal
import subprocess


def clip(text, head=2500, tail=2500):
    """keep the head (where sanitizers print what happened) and the tail of a long stderr"""
    text = text or ""
    if len(text) <= head + tail:
        return text
    return text[:head] + "\n[...]\n" + text[-tail:]


class Crash:
    def __init__(self, rc, stderr, timeout=False):
        self.rc = rc
        self.stderr = stderr
        self.timeout = timeout

    def site(self):
        """a short, line-number free description of where the process died"""
        import re
        err = self.stderr or ""
        m = re.search(r"Assertion `(.*?)' failed", err)
        if m:
            fm = re.search(r"([\w/\.]+):\d+: (.*?): Assertion", err)
            fn = fm.group(2) if fm else ""
            fn = re.sub(r"\(.*", "", fn).strip()
            return "assert(%s) in %s" % (m.group(1)[:80], fn[-60:])
        m = re.search(r"terminate called after throwing an instance of '(.*?)'", err)
        if m:
            return "terminate(%s)" % m.group(1)
        if "terminate called" in err:
            return "terminate"
        m = re.search(r"ERROR: AddressSanitizer: ([\w-]+)", err)
        if m:
            return "asan(%s)%s" % (m.group(1), _top_repo_frame(err))
        m = re.search(r"runtime error: (.*)", err)
        if m:
            return "ubsan(%s)" % re.sub(r"\d+", "N", m.group(1))[:80]
        if self.timeout:
            return "timeout"
        if self.rc is not None and self.rc < 0:
            try:
                return "signal(%s)" % signal.Signals(-self.rc).name
            except ValueError:
                return "signal(%d)" % -self.rc
        return "exit(%s)" % self.rc


def is_repo_path(path):
    """a source path of the repository under test (build trees refer to it through relative paths)"""
    return not path.startswith("/usr/") and re.search(r"/(smt|riddle|core|solver|executor)/[^/]*\.(cpp|h)$|/(smt|solver)/[a-z_/]+/[^/]*\.(cpp|h)$|/main\.cpp$", path) is not None


def _top_repo_frame(err):
    import re
    for m in re.finditer(r"#\d+ 0x[0-9a-f]+ in (.+?) ([^\s:()]+):\d+", err):
        if is_repo_path(m.group(2)):
            fn = re.sub(r"\(.*", "", m.group(1))
            return " in " + fn
    return ""


def is_sanitized(exe):
    return "/asan-" in exe or "tsan-" in exe or "/fuzz-" in exe


def _limits(mem_gb, exe=None):
    if exe is not None and is_sanitized(exe):
        mem_gb = None       # sanitizers reserve terabytes of address space: they get an RSS limit through ASAN_OPTIONS instead

    def f():
        if mem_gb:
            lim = int(mem_gb * (1 << 30))
            try:
                resource.setrlimit(resource.RLIMIT_AS, (lim, lim))
            except (ValueError, OSError):
                pass
        resource.setrlimit(resource.RLIMIT_CORE, (0, 0))
    return f


def san_env(extra=None):
    e = dict(os.environ)
    e["ASAN_OPTIONS"] = "abort_on_error=1:detect_leaks=0:handle_abort=0:allocator_may_return_null=1:hard_rss_limit_mb=3000"
    e["UBSAN_OPTIONS"] = "print_stacktrace=1"
    e["TSAN_OPTIONS"] = "halt_on_error=0:second_deadlock_stack=1"
    if extra:
        e.update(extra)
    return e


def run_lines(exe, lines, per_line_timeout=5.0, args=(), env=None, mem_gb=None, max_crashes=50):
    """Feed `lines` (one request per line, one '= ...' answer per line) to exe.

    Returns a list with, per input line, either the answer string or a Crash.  After a crash the
    remaining lines are fed to a fresh process.
    """
    out = [None] * len(lines)
    i = 0
    crashes = 0
    while i < len(lines):
        chunk = lines[i:]
        tmo = 30 + per_line_timeout * min(len(chunk), 2000) / 20.0
        try:
            p = subprocess.run([exe] + list(args), input="\n".join(chunk) + "\n", stdout=subprocess.PIPE, stderr=subprocess.PIPE,
                               text=True, timeout=tmo, env=env or san_env(), preexec_fn=_limits(mem_gb), errors="replace")
            rc, so, se, to = p.returncode, p.stdout, p.stderr, False
        except subprocess.TimeoutExpired as ex:
            so = ex.stdout.decode(errors="replace") if isinstance(ex.stdout, bytes) else (ex.stdout or "")
            se = ex.stderr.decode(errors="replace") if isinstance(ex.stderr, bytes) else (ex.stderr or "")
            rc, to = None, True
        answers = [l for l in so.split("\n") if l.startswith("= ") or l.startswith("! ")]
        for k, a in enumerate(answers[:len(chunk)]):
            out[i + k] = a[2:]
        n = min(len(answers), len(chunk))
        if n == len(chunk) and rc == 0:
            break
        if n < len(chunk):
            out[i + n] = Crash(rc, clip(se), to)
            crashes += 1
            i = i + n + 1
            if crashes >= max_crashes:
                for k in range(i, len(lines)):
                    out[k] = Crash(None, "skipped after too many crashes")
                break
        else:
            # all answered but non-zero exit (e.g. sanitizer report at exit): attribute to the batch end
            out[-1] = out[-1] if isinstance(out[-1], Crash) else out[-1]
            break
    return out
