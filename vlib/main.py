import importlib
import os
import sys
import traceback

HERE = os.path.dirname(os.path.dirname(os.path.abspath(__file__)))
sys.path.insert(0, HERE)
os.chdir(HERE)


def main(argv):
    if not argv:
        print("usage: vcheck run <Cxx> [--tier quick|thorough] | setup | baseline-off | replay <file>")
        return 2
    cmd = argv[0]
    from vlib import build, common
    if cmd == "setup":
        # nothing to fetch: make sure the build root exists and the toolchain answers
        os.makedirs(build.ROOT, exist_ok=True)
        build.ensure("dbg")
        print("setup ok")
        return 0
    if cmd == "baseline-off":
        return build.baseline_off()
    if cmd == "run":
        pid = argv[1].upper()
        tier = common.tier()
        if "--tier" in argv:
            tier = argv[argv.index("--tier") + 1]
        os.environ["VERIF_TIER"] = tier
        try:
            mod = importlib.import_module("checks." + pid.lower())
            return mod.run(tier)
        except build.BuildError as ex:
            print("HARNESS: build failed:\n" + str(ex)[-3000:])
            return 2
        except Exception:
            print("HARNESS: " + traceback.format_exc())
            return 2
    if cmd == "replay":
        import json
        w = json.load(open(argv[1]))
        mod = importlib.import_module("checks." + w["property"].lower())
        if hasattr(mod, "replay"):
            return mod.replay(w)
        print(json.dumps(w, indent=1))
        return 0
    print("unknown command", cmd)
    return 2


if __name__ == "__main__":
    sys.exit(main(sys.argv[1:]))
