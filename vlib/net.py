"""Client side of drivers/net_drv.cpp: running cases, parsing traces."""
import json
from fractions import Fraction

from vlib import drv
from vlib.xnum import parse_r, NINF, PINF, is_inf


def plit(s):
    """'b5' -> (5, True), '!b5' -> (5, False)"""
    if s.startswith("!"):
        return (int(s[2:]), False)
    return (int(s[1:]), True)


def pq(s):
    a, b = s.split(",")
    return (parse_r(a), parse_r(b))


def lit_value(val, lit):
    """val: string of '0','1','2' per variable; returns True/False/None"""
    v, sgn = lit
    c = val[v]
    if c == "2":
        return None
    return (c == "1") == sgn


def program(cid, ops):
    return "case %s ; " % cid + " ; ".join(ops)


class Trace:
    def __init__(self, events):
        self.events = events
        self.rets = {}
        self.calls = []
        cur = None
        self.hooks_in = {}   # op index -> list of hook events raised during that call
        for e in events:
            if "call" in e:
                cur = e["call"]
                self.calls.append(cur)
                self.hooks_in[cur] = []
            elif "ret" in e:
                self.rets[e["ret"]] = e
                cur = None
            elif "h" in e and cur is not None:
                self.hooks_in[cur].append(e)

    def res(self, i):
        return self.rets[i]["res"]

    def obs(self, i):
        return self.rets[i].get("obs")

    def hooks(self, i, kind=None):
        return [h for h in self.hooks_in.get(i, []) if kind is None or h["h"] == kind]

    def all_hooks(self, kind):
        return [e for e in self.events if e.get("h") == kind]


def run_cases(exe, programs, env=None, per_case_timeout=10.0):
    """returns list of Trace | drv.Crash"""
    outs = drv.run_lines(exe, programs, per_line_timeout=per_case_timeout, env=env, mem_gb=None)
    res = []
    for o in outs:
        if o is None or isinstance(o, drv.Crash):
            res.append(o)
        else:
            try:
                res.append(Trace(json.loads(o)))
            except ValueError:
                res.append(drv.Crash(None, "unparsable trace: " + o[:300]))
    return res
