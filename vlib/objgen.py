"""Family 'obj': class hierarchies, constructors, fields, enums, object variables and ==/!= constraints, generated together with
the reference object model (which instances exist when, what every field holds, which value combinations satisfy the constraints)."""
import itertools
from fractions import Fraction

from vlib import riddle
from vlib.riddle import Printer

Z = Fraction(0)


class Cls:
    def __init__(self, name, supers, fields, params, super_args, own_init):
        self.name = name
        self.supers = supers            # list of Cls
        self.fields = fields            # [(kind, type, name, init)] kind: 'real' | 'obj'; init: Fraction | None
        self.params = params            # [(kind, type, name)]
        self.super_args = super_args    # {super name: [('p', param) | ('c', Fraction)]}
        self.own_init = own_init        # {field name: ('p', param)}

    def ancestors(self):
        out = [self]
        for s in self.supers:
            for a in s.ancestors():
                if a not in out:
                    out.append(a)
        return out

    def text(self):
        s = "class %s" % self.name
        if self.supers:
            s += " : " + ", ".join(x.name for x in self.supers)
        s += " {\n"
        for kind, tp, nm, init in self.fields:
            s += "    %s %s%s;\n" % (tp, nm, "" if init is None else " = " + (("true" if init else "false") if kind == "bool" else riddle.fmt_num(init, "real")))
        if self.params or self.super_args:
            s += "    %s(%s)" % (self.name, ", ".join("%s %s" % (tp, nm) for kind, tp, nm in self.params))
            il = []
            for sp in self.supers:
                if sp.name in self.super_args:
                    il.append("%s(%s)" % (sp.name, ", ".join(a if k == "p" else riddle.fmt_num(a, "real") for k, a in self.super_args[sp.name])))
            for f, (k, p) in self.own_init.items():
                il.append("%s(%s)" % (f, p))
            if il:
                s += " : " + ", ".join(il)
            s += " {}\n"
        s += "}\n"
        return s


def gen_obj(rnd, idx):
    ncls = rnd.randint(1, 4)
    classes = []
    for i in range(ncls):
        name = "C%d" % i
        supers = []
        if classes and rnd.random() < 0.6:
            supers = rnd.sample(classes, 1 if rnd.random() < 0.75 or len(classes) < 2 else 2)
            if len(supers) == 2:
                # a base reached through two paths is constructed twice: only allowed when it takes no constructor arguments
                shared = [a for a in supers[0].ancestors() if a in supers[1].ancestors()]
                if any(a.params for a in shared):
                    supers = supers[:1]
        fields = []
        for j in range(rnd.randint(0, 2)):
            fields.append(("real", "real", "w%d_%d" % (i, j), Fraction(rnd.randint(0, 20), 2) if rnd.random() < 0.35 else None))
        if rnd.random() < 0.35:
            fields.append(("bool", "bool", "q%d" % i, rnd.random() < 0.5))       # a boolean field with an initialiser
        if classes and rnd.random() < 0.3:
            tgt = rnd.choice(classes)
            if tgt not in supers:
                fields.append(("obj", tgt.name, "r%d" % i, None))
        params, own_init = [], {}
        for kind, tp, nm, init in fields:
            if init is None and rnd.random() < 0.75:
                p = "p_" + nm
                params.append((kind, tp, p))
                own_init[nm] = ("p", p)
        super_args = {}
        for sp in supers:
            if sp.params:
                args = []
                for kind, tp, nm in sp.params:
                    if kind == "real" and rnd.random() < 0.5:
                        args.append(("c", Fraction(rnd.randint(0, 20), 2)))
                    else:
                        p = "q_%s_%s" % (sp.name, nm)
                        params.append((kind, tp, p))
                        args.append(("p", p))
                super_args[sp.name] = args
        classes.append(Cls(name, supers, fields, params, super_args, own_init))
    # enums
    enums = {}
    nen = rnd.choice([0, 0, 1, 2])
    pool = ["a", "b", "c", "d", "e", "f"]
    rnd.shuffle(pool)
    for i in range(nen):
        if len(pool) < 2:
            break
        incl = []
        if enums and rnd.random() < 0.5:
            incl = [rnd.choice(sorted(enums))]
        # at least two values in total: a single-valued enum variable is exposed as the value itself; an enum with ONE own value may include others
        vals = [pool.pop() for _ in range(1 if incl and rnd.random() < 0.5 else 2)]
        enums["E%d" % i] = (vals, incl)

    def enum_vals(e):
        vals, incl = enums[e]
        out = list(vals)
        for x in incl:
            out += enum_vals(x)
        return out

    decl_text = "".join(c.text() for c in classes)
    # predicates with an object-typed parameter: passing a variable of a supertype narrows the variable to the parameter's type and binds it
    for c in classes:
        decl_text += "predicate N_%s(%s a) {\n}\n" % (c.name, c.name)
    for e, (vals, incl) in enums.items():
        decl_text += "enum %s {%s}%s;\n" % (e, ", ".join('"%s"' % v for v in vals), "".join(" | " + x for x in incl))
    # statements: instances and variables interleaved
    stmts = []
    instances = []      # (name, cls, fields dict name -> Fraction | ('ref', inst) | ('var', id))
    by_cls = {c.name: [] for c in classes}     # class name -> instance names existing so far (incl. subclasses)
    variables = {}      # var name -> {'kind': 'obj'|'enum', 'type':..., 'domain': [...]}
    field_vars = {}
    nsteps = rnd.randint(3, 9)
    ni = nv = 0
    atoms = {}          # fact name -> {'a': ('var', variable)}

    def construct(cls, args, inst_name, fields_out):
        """mirror of constructor::invoke: supertypes first (explicit args or default), then own init list, then remaining fields"""
        env = {nm: a for (kind, tp, nm), a in zip(cls.params, args)}
        for sp in cls.supers:
            if sp.name in cls.super_args:
                sargs = [env[a] if k == "p" else a for k, a in cls.super_args[sp.name]]
            else:
                sargs = []
            construct(sp, sargs, inst_name, fields_out)
        for f, (k, p) in cls.own_init.items():
            fields_out[f] = env[p]
        for kind, tp, nm, init in cls.fields:
            if nm in fields_out:
                continue
            if init is not None:
                fields_out[nm] = init
            elif kind == "real":
                fields_out[nm] = ("free",)
            else:
                dom = list(by_cls[tp])
                if len(dom) == 1:
                    fields_out[nm] = ("ref", dom[0])
                else:
                    vid = "%s.%s" % (inst_name, nm)
                    field_vars[vid] = {"kind": "obj", "type": tp, "domain": dom}
                    fields_out[nm] = ("var", vid)

    for _ in range(nsteps):
        c = rnd.random()
        if c < 0.55 or not instances:
            # an instance of a class whose object-typed parameters / fields can be satisfied
            cands = []
            for cl in classes:
                ok = True
                for a in cl.ancestors():
                    for kind, tp, nm, init in a.fields:
                        if kind == "obj" and not by_cls[tp]:
                            ok = False
                for kind, tp, nm in cl.params:
                    if kind == "obj" and not by_cls[tp]:
                        ok = False
                if ok:
                    cands.append(cl)
            if not cands:
                continue
            cl = rnd.choice(cands)
            name = "o%d" % ni
            ni += 1
            args, targs = [], []
            for kind, tp, nm in cl.params:
                if kind == "real":
                    v = Fraction(rnd.randint(0, 20), 2)
                    args.append(v)
                    targs.append(riddle.fmt_num(v, "real"))
                else:
                    r = rnd.choice(by_cls[tp])
                    args.append(("ref", r))
                    targs.append(r)
            fields = {}
            # the instance exists (and is registered with its class and all ancestors) before its constructor runs
            for a in cl.ancestors():
                if name not in by_cls[a.name]:
                    by_cls[a.name].append(name)
            construct(cl, args, name, fields)
            instances.append((name, cl, fields))
            stmts.append("%s %s = new %s(%s);" % (cl.name, name, cl.name, ", ".join(targs)))
        elif c < 0.68 and variables:
            # fact on a predicate whose parameter is of a (proper or improper) subtype of the variable's type
            objv = [v for v, d in variables.items() if d["kind"] == "obj" and len(d["domain"]) > 1]
            if not objv:
                continue
            v = rnd.choice(objv)
            vt = [cl for cl in classes if cl.name == variables[v]["type"]][0]
            subs = [cl for cl in classes if vt in cl.ancestors() and any(i in by_cls[cl.name] for i in variables[v]["domain"])]
            if not subs:
                continue
            t = rnd.choice(subs)
            fname = "f%d" % nv
            nv += 1
            variables[v]["domain"] = [i for i in variables[v]["domain"] if i in by_cls[t.name]]
            atoms[fname] = {"a": ("var", v)}
            stmts.append("fact %s = new N_%s(a:%s);" % (fname, t.name, v))
            if len(variables[v]["domain"]) == 1:
                # the variable is a constant from here on: the solution exposes the instance itself
                pass
        elif c < 0.85:
            cands = [cl for cl in classes if by_cls[cl.name]]
            if not cands:
                continue
            cl = rnd.choice(cands)
            name = "v%d" % nv
            nv += 1
            variables[name] = {"kind": "obj", "type": cl.name, "domain": list(by_cls[cl.name])}
            stmts.append("%s %s;" % (cl.name, name))
        elif enums:
            e = rnd.choice(sorted(enums))
            name = "e%d" % nv
            nv += 1
            variables[name] = {"kind": "enum", "type": e, "domain": enum_vals(e)}
            stmts.append("%s %s;" % (e, name))
    # pattern: several instances whose object field holds the SAME instance, others holding another one, and a variable over all of them
    pat = None
    if rnd.random() < 0.2:
        cands = [(cl, cl.params[0][1]) for cl in classes if len(cl.params) == 1 and cl.params[0][0] == "obj" and not cl.supers and not cl.super_args]
        cands = [(cl, t) for cl, t in cands if not [c for c in classes if c.name == t][0].params and not [c for c in classes if c.name == t][0].supers]
        if cands:
            cl, tname = rnd.choice(cands)
            tcl = [c for c in classes if c.name == tname][0]

            def new_inst(c, args, targs):
                nonlocal ni
                name = "o%d" % ni
                ni += 1
                flds = {}
                for a in c.ancestors():
                    if name not in by_cls[a.name]:
                        by_cls[a.name].append(name)
                construct(c, args, name, flds)
                instances.append((name, c, flds))
                stmts.append("%s %s = new %s(%s);" % (c.name, name, c.name, ", ".join(targs)))
                return name
            # (the target class may have existential fields of its own: only plain ones are used)
            if not any(kind == "obj" for a in tcl.ancestors() for kind, tp, nm, init in a.fields):
                t0, t1 = new_inst(tcl, [], []), new_inst(tcl, [], [])
                group = [new_inst(cl, [("ref", t)], [t]) for t in (t0, t0, t1, t1)]
                vname = "v%d" % nv
                nv += 1
                variables[vname] = {"kind": "obj", "type": cl.name, "domain": list(by_cls[cl.name])}
                stmts.append("%s %s;" % (cl.name, vname))
                fld = [nm for kind, tp, nm, init in cl.fields if kind == "obj" and cl.own_init.get(nm) == ("p", cl.params[0][2])]
                if fld:
                    pat = (vname, fld[0], t0, t1, group)
    # constraints between variables / instances / fields
    cons = []
    if pat:
        vname, fld, t0, t1, group = pat
        cons.append((rnd.choice(["neq", "neq", "eq"]), ("id", [vname, fld]), ("id", [rnd.choice([t0, t1])])))
        for g in rnd.sample(group, rnd.randint(0, 3)):
            cons.append(("neq", ("id", [vname]), ("id", [g])))
    objvars = [v for v, d in variables.items() if d["kind"] == "obj"]
    envars = [v for v, d in variables.items() if d["kind"] == "enum"]
    inst_names = [n for n, _, _ in instances]
    cls_of = {n: c for n, c, _ in instances}

    def assignable(t1, t2):
        c1 = [c for c in classes if c.name == t1][0]
        c2 = [c for c in classes if c.name == t2][0]
        return c1 in c2.ancestors() or c2 in c1.ancestors()

    for _ in range(rnd.randint(0, 4)):
        c = rnd.random()
        if c < 0.45 and objvars:
            a = rnd.choice(objvars)
            others = [b for b in objvars if b != a and assignable(variables[a]["type"], variables[b]["type"])]
            insts = [i for i in inst_names if assignable(variables[a]["type"], cls_of[i].name)]
            if others and rnd.random() < 0.5:
                b = rnd.choice(others)
            elif insts:
                b = rnd.choice(insts)
            else:
                continue
            op = rnd.choice(["eq", "neq", "neq"])
            l, r = (a, b) if rnd.random() < 0.5 else (b, a)
            cons.append((op, ("id", [l]), ("id", [r])))
        elif c < 0.55 and atoms:
            # the parameter of a fact is the variable that was passed
            f = rnd.choice(sorted(atoms))
            v = atoms[f]["a"][1]
            insts = [i for i in inst_names if assignable(variables[v]["type"], cls_of[i].name)]
            if not insts:
                continue
            cons.append((rnd.choice(["eq", "neq"]), ("id", [f, "a"]), ("id", [rnd.choice(insts)])))
        elif c < 0.6 and len(envars) >= 2:
            a, b = rnd.sample(envars, 2)
            cons.append((rnd.choice(["eq", "neq"]), ("id", [a]), ("id", [b])))
        elif c < 0.9 and objvars and rnd.random() < 0.45:
            # an object-typed field reached through a variable, compared with an instance (several candidates may share the field's value)
            a = rnd.choice(objvars)
            cl = [c for c in classes if c.name == variables[a]["type"]][0]
            of = [(nm, tp) for an in cl.ancestors() for kind, tp, nm, init in an.fields if kind == "obj"]
            if not of:
                continue
            f, ftp = rnd.choice(of)
            insts = [i for i in inst_names if assignable(ftp, cls_of[i].name)]
            if not insts:
                continue
            # (only fields that hold an instance in every candidate: reading an EXISTENTIAL field through a variable is a recorded defect,
            # exercised by a fixed witness in C17 instead of at random)
            fmap = {n: fl for n, c2, fl in instances}
            if any(fmap[i].get(f, ("ref",))[0] != "ref" for i in variables[a]["domain"]):
                continue
            cons.append((rnd.choice(["eq", "neq", "neq"]), ("id", [a, f]), ("id", [rnd.choice(insts)])))
        elif c < 0.75 and objvars and rnd.random() < 0.5:
            # a boolean field reached through a variable
            a = rnd.choice(objvars)
            cl = [c for c in classes if c.name == variables[a]["type"]][0]
            bf = [nm for an in cl.ancestors() for kind, tp, nm, init in an.fields if kind == "bool"]
            if not bf:
                continue
            cons.append(("eq", ("id", [a, rnd.choice(bf)]), ("bool", rnd.random() < 0.5)))
        elif objvars:
            # a numeric field reached through a variable
            a = rnd.choice(objvars)
            cl = [c for c in classes if c.name == variables[a]["type"]][0]
            nf = [nm for an in cl.ancestors() for kind, tp, nm, init in an.fields if kind == "real"]
            if not nf:
                continue
            f = rnd.choice(nf)
            cons.append((rnd.choice(["leq", "geq", "lt", "gt"]), ("id", [a, f]), riddle.num(Fraction(rnd.randint(0, 20), 2), "real")))
    # bounds on free numeric fields of the instances themselves: together with a constraint on the same field read through a variable
    # they decide which instances the variable can still be
    for n, cl, flds in instances:
        for f, v in flds.items():
            if v == ("free",) and rnd.random() < 0.4:
                cons.append((rnd.choice(["leq", "geq", "geq"]), ("id", [n, f]), riddle.num(Fraction(rnd.randint(0, 20), 2), "real")))
    rnd.shuffle(cons)
    pr = Printer(rnd, redundant=0.1)
    body = stmts + [pr.expr(e) + ";" for e in cons]
    text = decl_text + "\n".join(body) + "\n"
    return {"family": "obj", "id": "obj-%d" % idx, "text": text, "classes": classes, "enums": enums, "instances": instances, "variables": variables,
            "field_vars": field_vars, "cons": cons, "by_cls": by_cls, "atoms": atoms}


def solutions(case, limit=20000):
    """all assignments of object / enum variables (and existential object fields) that satisfy the constraints, by brute force.
    Free numeric fields make numeric constraints on them always satisfiable (they are unconstrained otherwise)."""
    allvars = dict(case["variables"])
    allvars.update(case["field_vars"])
    names = sorted(allvars)
    doms = [allvars[n]["domain"] for n in names]
    total = 1
    for d in doms:
        total *= max(len(d), 1)
    if total > limit:
        return None
    inst = {n: f for n, c, f in case["instances"]}
    inst.update(case.get("atoms", {}))
    sols = []
    for tup in itertools.product(*doms):
        asg = dict(zip(names, tup))

        def resolve(path):
            cur = asg.get(path[0], path[0])
            for f in path[1:]:
                v = inst[cur][f]
                if isinstance(v, tuple) and v[0] == "ref":
                    cur = v[1]
                elif isinstance(v, tuple) and v[0] == "var":
                    cur = asg[v[1]]
                elif isinstance(v, tuple) and v[0] == "free":
                    return ("free", cur, f)
                else:
                    return v
            return cur
        ok = True
        free_bounds = {}     # (instance, field) -> [lo, lo strict, hi, hi strict]: a free numeric field only has to admit SOME value
        for op, l, r in case["cons"]:
            a = resolve(l[1]) if l[0] == "id" else l[1]
            b = resolve(r[1]) if r[0] == "id" else r[1]
            fa = isinstance(a, tuple) and a[0] == "free"
            fb = isinstance(b, tuple) and b[0] == "free"
            if fa and fb:
                continue        # not generated (a field is only compared with constants)
            if fa or fb:
                key, k = (a[1:], b) if fa else (b[1:], a)
                o = op if fa else {"lt": "gt", "gt": "lt", "leq": "geq", "geq": "leq"}.get(op, op)
                bd = free_bounds.setdefault(key, [None, False, None, False])
                if o in ("geq", "gt", "eq") and (bd[0] is None or k > bd[0] or (k == bd[0] and o == "gt")):
                    bd[0], bd[1] = k, o == "gt"
                if o in ("leq", "lt", "eq") and (bd[2] is None or k < bd[2] or (k == bd[2] and o == "lt")):
                    bd[2], bd[3] = k, o == "lt"
                if bd[0] is not None and bd[2] is not None and (bd[0] > bd[2] or (bd[0] == bd[2] and (bd[1] or bd[3]))):
                    ok = False
                    break
                continue
            res = {"eq": a == b, "neq": a != b, "lt": a < b, "leq": a <= b, "geq": a >= b, "gt": a > b}[op] if not (isinstance(a, str) != isinstance(b, str)) else (op == "neq")
            if not res:
                ok = False
                break
        if ok:
            sols.append(asg)
    return sols
