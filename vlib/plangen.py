"""Planning workload families built around a planted plan: state variables ('sv'), reusable resources ('rr'),
interval / impulse predicates ('tl'), rules with sub-goals, unification and disjunctions ('rules')."""
from fractions import Fraction

from vlib import riddle
from vlib.riddle import num

Z = Fraction(0)


def f2(x):
    return riddle.fmt_num(Fraction(x), "real")


def gen_sv(rnd, idx):
    ncls = rnd.randint(1, 2)
    text = ""
    classes = []
    for c in range(ncls):
        npred = rnd.randint(1, 2)
        preds = []
        body = ""
        for p in range(npred):
            dmin = rnd.choice([0, 1, 1, 2, 3])
            preds.append({"name": "P%d" % p, "dmin": Fraction(dmin)})
            body += "    predicate P%d(real x) { duration >= %s; }\n" % (p, f2(dmin))
        classes.append({"name": "SV%d" % c, "preds": preds})
        text += "class SV%d : StateVariable {\n%s}\n" % (c, body)
    insts = []
    for c in classes:
        for k in range(rnd.randint(1, 2)):
            n = "s%s_%d" % (c["name"][2:], k)
            insts.append({"name": n, "cls": c})
            text += "%s %s = new %s();\n" % (c["name"], n, c["name"])
    # planted timeline per instance: consecutive slots, possibly touching, possibly zero length
    atoms = []
    horizon = Z
    var_decl = {}
    for ins in insts:
        t = Fraction(rnd.randint(0, 3))
        for k in range(rnd.randint(1, 4)):
            pred = rnd.choice(ins["cls"]["preds"])
            gap = Fraction(rnd.choice([0, 0, 1, 2]))
            dur = pred["dmin"] + Fraction(rnd.choice([0, 0, 1, 2, 5]), rnd.choice([1, 2]))
            s = t + gap
            e = s + dur
            t = e
            atoms.append({"inst": ins, "pred": pred, "start": s, "end": e})
            horizon = max(horizon, e)
    rnd.shuffle(atoms)
    stmts = []
    for i, a in enumerate(atoms):
        kind = "fact" if rnd.random() < 0.5 else "goal"
        name = "a%d" % i
        a["name"] = name
        a["kind"] = kind
        ins = a["inst"]
        scope = ins["name"]
        same_cls = [x for x in insts if x["cls"] is ins["cls"]]
        if len(same_cls) > 1 and rnd.random() < 0.3:
            vn = "tv_%d" % i        # one variable per atom: two atoms created through one variable share their state variable
            stmts.append("%s %s;" % (ins["cls"]["name"], vn))
            scope = vn
            a["free_tau"] = True
        args = []
        mode = rnd.random()
        cons = []
        if mode < 0.3:
            args += ["start:%s" % f2(a["start"]), "end:%s" % f2(a["end"])]
            if rnd.random() < 0.4:      # every temporal argument a constant: the atom has no variable that could change later
                args += ["duration:%s" % f2(a["end"] - a["start"])]
        elif mode < 0.5:
            args += ["start:%s" % f2(a["start"])]
            cons.append("%s.end <= %s;" % (name, f2(a["end"] + rnd.choice([0, 0, 1]))))
        else:
            cons.append("%s.start >= %s;" % (name, f2(max(Z, a["start"] - rnd.choice([0, 0, 1, 2])))))
            cons.append("%s.end <= %s;" % (name, f2(a["end"] + rnd.choice([0, 0, 1, 3]))))
            if rnd.random() < 0.5:
                cons.append("%s.duration >= %s;" % (name, f2(a["end"] - a["start"])))
        args.append("x:%s" % f2(rnd.randint(0, 5)))
        stmts.append("%s %s = new %s.%s(%s);" % (kind, name, scope, a["pred"]["name"], ", ".join(args)))
        stmts += cons
    slack = rnd.choice([0, 0, 1, 5, 20])
    stmts.append("horizon <= %s;" % f2(horizon + slack))
    # ordering hints between atoms of one instance (consistent with the plant), exercising end == start ties
    for _ in range(rnd.randint(0, 2)):
        a, b = rnd.sample(atoms, 2) if len(atoms) >= 2 else (None, None)
        if a and a["inst"] is b["inst"] and a["end"] <= b["start"]:
            stmts.append("%s.end <= %s.start;" % (a["name"], b["name"]))
    text += "\n".join(stmts) + "\n"
    return {"family": "sv", "id": "sv-%d" % idx, "text": text, "atoms": atoms, "insts": insts, "planted": True}


def gen_rr(rnd, idx):
    nres = rnd.randint(1, 2)
    text = ""
    res = []
    for r in range(nres):
        cap = Fraction(rnd.randint(2, 12))
        res.append({"name": "r%d" % r, "cap": cap})
        text += "ReusableResource r%d = new ReusableResource(%s);\n" % (r, f2(cap))
    # planted: time is cut into unit steps; at every step the planted usage stays within capacity
    atoms = []
    horizon = Z
    for r in res:
        T = rnd.randint(3, 8)
        load = [Z] * T
        for k in range(rnd.randint(1, 6)):
            s = rnd.randint(0, T - 1)
            e = rnd.randint(s, T) if rnd.random() < 0.85 else s
            free = min([r["cap"] - load[t] for t in range(s, e)] or [r["cap"]])
            if free <= 0:
                continue
            c = rnd.random()
            if c < 0.3:
                amt = free                                  # exact fit
            elif c < 0.4:
                amt = Z                                     # zero amount
            else:
                amt = Fraction(rnd.randint(1, max(1, int(free * 2))), 2)
                amt = min(amt, free)
            for t in range(s, e):
                load[t] += amt
            atoms.append({"res": r, "start": Fraction(s), "end": Fraction(e), "amount": amt})
            horizon = max(horizon, Fraction(e))
    # exact-fit group: atoms with fixed, identical intervals whose amounts add up to exactly the capacity (they MUST overlap)
    forced = []
    if rnd.random() < 0.35:
        r = rnd.choice(res)
        s0 = Fraction(rnd.randint(10, 14))
        e0 = s0 + rnd.randint(1, 3)
        k = rnd.randint(2, 3)
        rest = r["cap"]
        for j in range(k):
            amt = rest if j == k - 1 else Fraction(rnd.randint(0, int(rest * 2)), 2)
            rest -= amt
            forced.append({"res": r, "start": s0, "end": e0, "amount": amt, "forced": True})
        horizon = max(horizon, e0)
    atoms += forced
    rnd.shuffle(atoms)
    stmts = []
    decl = False
    for i, a in enumerate(atoms):
        name = "u%d" % i
        a["name"] = name
        kind = "fact" if rnd.random() < 0.6 else "goal"
        a["kind"] = kind
        scope = a["res"]["name"]
        if len(res) > 1 and rnd.random() < 0.25:
            scope = "rv%d" % i      # one variable per atom
            stmts.append("ReusableResource %s;" % scope)
            a["free_tau"] = True
        mode = rnd.random() if not a.get("forced") else 0.0
        if a.get("forced"):
            scope = a["res"]["name"]
            a.pop("free_tau", None)
        cons = []
        args = ["amount:%s" % f2(a["amount"])]
        if mode < 0.35:
            args += ["start:%s" % f2(a["start"]), "end:%s" % f2(a["end"])]
            if rnd.random() < 0.4:
                args += ["duration:%s" % f2(a["end"] - a["start"])]
        elif mode < 0.6:
            args += ["duration:%s" % f2(a["end"] - a["start"])]
            cons.append("%s.start >= %s;" % (name, f2(max(Z, a["start"] - rnd.choice([0, 1, 2])))))
            cons.append("%s.end <= %s;" % (name, f2(a["end"] + rnd.choice([0, 1, 2]))))
        else:
            cons.append("%s.start >= %s;" % (name, f2(max(Z, a["start"] - rnd.choice([0, 0, 1])))))
            cons.append("%s.end <= %s;" % (name, f2(a["end"] + rnd.choice([0, 0, 2]))))
            cons.append("%s.duration >= %s;" % (name, f2(a["end"] - a["start"])))
        stmts.append("%s %s = new %s.Use(%s);" % (kind, name, scope, ", ".join(args)))
        stmts += cons
    stmts.append("horizon <= %s;" % f2(horizon + rnd.choice([0, 0, 2, 10])))
    text += "\n".join(stmts) + "\n"
    return {"family": "rr", "id": "rr-%d" % idx, "text": text, "atoms": atoms, "res": res, "planted": True}


def gen_tl(rnd, idx):
    """interval / impulse atoms as facts and goals on plain predicates, agents and smart types (C06)"""
    text = "predicate I0(real x) : Interval { duration >= 1.0; }\npredicate M0(real y) : Impulse { }\n"
    text += "predicate G0() : Interval { goal i = new I0(x:2.0); goal m = new M0(y:1.0); i.start >= start; m.at >= i.end; }\n"
    text += "class Ag : Agent { predicate Act(real k) : Interval { duration >= 2.0; } predicate Sig() : Impulse { } predicate Carry() : Act { } predicate Alarm() : Sig { } predicate Survey() : Interval { fact b = new Sig(at:start); duration >= 4.0; end >= 5.0; } }\nAg ag = new Ag();\n"
    text += "predicate I1(real z) : I0 { }\npredicate M1() : M0 { }\n"
    text += "class Tool { }\npredicate Build() : Interval { goal c = new I0(x:1.0); Tool t; goal d = new M0(y:2.0); d.at >= c.end; }\n"     # no Tool exists: the rule cannot be applied       # temporal only through another predicate
    text += "class SV : StateVariable { predicate S() { duration >= 1.0; } }\nSV sv = new SV();\n"
    text += "ReusableResource rr = new ReusableResource(5.0);\n"
    # predicates declared inside a plain (non smart) class, in a class derived from one, in a class derived from a smart type; empty rule bodies;
    # a fact introduced by a rule
    text += "class Cam { predicate Rec(real q) : Interval { duration >= 1.0; } predicate Shot() : Impulse { } predicate Idle() : Interval { }\n"
    text += "    predicate Ses() : Interval { duration >= 3.0; fact w = new Rec(q:1.0); w.start >= start + 1.0; goal sh = new Shot(); sh.at >= w.end; } }\n"
    text += "class Cam2 : Cam { predicate Pan(real a) : Interval { } }\nCam cam = new Cam();\nCam2 cam2 = new Cam2();\n"
    text += "class Ag2 : Ag { predicate Wave() : Interval { } predicate Blink() : Impulse { } }\nAg2 ag2 = new Ag2();\n"
    text += "class SV2 : StateVariable { predicate E() { } }\nSV2 sv2 = new SV2();\n"
    text += "predicate E0() : Interval { }\n"
    text += "class Bat : ConsumableResource { Bat(real i, real c) : ConsumableResource(i, c) {} predicate Drain() : Consume { duration >= 1.0; } predicate Charge() : Produce { } }\nBat bat = new Bat(2.0, 10.0);\n"
    stmts = []
    n = rnd.randint(2, 7)
    for i in range(n):
        kind = rnd.choice(["fact", "goal"])
        c = rnd.random()
        nm = "t%d" % i
        extra_after = None
        if c < 0.45 and rnd.random() < 0.5:
            what = rnd.choice(["cam.Rec(q:2.0)", "cam.Shot()", "cam.Idle()", "cam.Ses()", "cam2.Pan(a:1.0)", "cam2.Rec(q:3.0)", "cam2.Shot()", "ag2.Wave()", "ag2.Blink()", "ag2.Act(k:2.0)",
                               "sv2.E()", "E0()", "bat.Drain(amount:1.0)", "bat.Charge(amount:2.0)",
                               "ag.Carry(k:1.0)", "ag.Alarm()", "ag.Carry(k:2.0)", "ag.Alarm()", "I1(x:1.0, z:2.0)", "M1(y:3.0)", "ag.Survey()", "ag.Survey()", "ag.Sig(at:%d.0)" % rnd.randint(0, 4), "Build()"])
            if "Build" in what:
                kind = "goal"
            if "Survey" in what:
                kind = "goal"
                # an impulse the rule's own fact could be unified with, and (often) a deadline the rule forbids: a solver that ties the rest of the
                # rule to that fact instead of to the goal finds a "plan" by unifying the fact away
                stmts.append("fact sg%d = new ag.Sig(at:%d.0);" % (i, rnd.randint(0, 2)))
                if rnd.random() < 0.6:
                    extra_after = "{ %s.end == %d.0; } or { %s.end == %d.0; }" % (nm, rnd.randint(2, 4), nm, rnd.randint(6, 8))
            if "Ses" in what:
                kind = "goal"
            stmts.append("%s %s = new %s;" % (kind, nm, what))
            if extra_after:
                stmts.append(extra_after)
            if "sv2.E" in what:
                stmts.append("%s.start >= %s;" % (nm, f2(i * 3)))
                stmts.append("%s.end <= %s;" % (nm, f2(i * 3 + 2)))
        elif c < 0.2:
            stmts.append("%s %s = new I0(x:%s);" % (kind, nm, f2(rnd.randint(0, 4))))
        elif c < 0.35:
            stmts.append("%s %s = new M0(y:%s);" % (kind, nm, f2(rnd.randint(0, 4))))
        elif c < 0.45:
            stmts.append("goal %s = new G0();" % nm)
        elif c < 0.6:
            stmts.append("%s %s = new ag.Act(k:1.0);" % (kind, nm))
        elif c < 0.7:
            stmts.append("%s %s = new ag.Sig();" % (kind, nm))
        elif c < 0.85:
            stmts.append("%s %s = new sv.S();" % (kind, nm))
            stmts.append("%s.start >= %s;" % (nm, f2(i * 3)))
            stmts.append("%s.end <= %s;" % (nm, f2(i * 3 + 2)))
        else:
            stmts.append("%s %s = new rr.Use(amount:%s, duration:%s);" % (kind, nm, f2(rnd.randint(0, 5)), f2(rnd.randint(0, 3))))
        # constraints that tempt a solver that forgot the temporal rule
        k = rnd.random()
        if "new M0" in stmts[-1] or "Sig" in stmts[-1] or "Shot" in stmts[-1] or "Blink" in stmts[-1] or "Alarm" in stmts[-1] or "new M1" in stmts[-1]:
            if k < 0.3:
                stmts.append("%s.at >= %s;" % (nm, f2(rnd.randint(0, 6))))
        elif "G0" not in stmts[-1] and "sv2.E" not in stmts[-1]:
            if k < 0.25:
                stmts.append("%s.start >= %s;" % (nm, f2(rnd.randint(0, 6))))
            elif k < 0.4:
                stmts.append("%s.end <= %s;" % (nm, f2(rnd.randint(3, 30))))
    stmts.append("horizon <= %s;" % f2(rnd.choice([8, 12, 30, 60])))
    if rnd.random() < 0.5:
        stmts.append("origin >= %s;" % f2(rnd.choice([0, 1, 2])))
    # constraints the rules of some predicates put on the atom's own parameters (checked on every active goal of that predicate)
    rule_table = {"Ag:Survey": [("geq", ("id", ["duration"]), num(4)), ("geq", ("id", ["end"]), num(5))], "Ag:Act": [("geq", ("id", ["duration"]), num(2))],
                  "I0": [("geq", ("id", ["duration"]), num(1))], "Cam:Ses": [("geq", ("id", ["duration"]), num(3))]}
    return {"family": "tl", "id": "tl-%d" % idx, "text": text + "\n".join(stmts) + "\n", "planted": False, "rule_table": rule_table,
            "subgoal_table": {"Build": ["I0", "M0"], "G0": ["I0", "M0"], "Ses": ["Rec", "Shot"], "Survey": ["Sig"]}}


def gen_rules(rnd, idx):
    """top-level predicates with arguments, rules with constraints and sub-goals (acyclic), a recursive predicate bottoming out in a fact
    (unification), disjunctions with costs; the reference keeps, per predicate, the list of sub-goal predicates and the rule's constraints"""
    npred = rnd.randint(2, 4)
    preds = {}
    text = ""
    order = ["Q%d" % i for i in range(npred)]
    for i, p in enumerate(order):
        subs = []
        cons = []
        body = ""
        # constraints on the own argument
        lo = rnd.randint(0, 3)
        cons.append(("geq", ("id", ["x"]), num(lo)))
        body += "    x >= %d;\n" % lo
        if i > 0:
            for k in range(rnd.choice([0, 1, 1, 2])):
                q = rnd.choice(order[:i])
                off = rnd.randint(0, 2)
                sn = "s%d" % k
                subs.append({"name": sn, "pred": q, "arg": ("add", [("id", ["x"]), num(off)])})
                body += "    goal %s = new %s(x:x + %d);\n" % (sn, q, off)
                if rnd.random() < 0.5:
                    cons.append(("geq", ("id", [sn, "x"]), ("id", ["x"])))
                    body += "    %s.x >= x;\n" % sn
        preds[p] = {"subs": subs, "cons": cons, "disj": None}
        if i > 0 and rnd.random() < 0.35:
            # a disjunction: either a tighter bound or a further sub-goal
            q = rnd.choice(order[:i])
            c1, c2 = rnd.choice([(1, 2), (2, 1), (1, 1)])
            hi = lo + rnd.randint(3, 8)
            body += "    { x <= %d; } [%d.0] or { goal d = new %s(x:x); } [%d.0]\n" % (hi, c1, q, c2)
            preds[p]["disj"] = [{"cons": [("leq", ("id", ["x"]), num(hi))], "subs": []}, {"cons": [], "subs": [{"name": "d", "pred": q, "arg": ("id", ["x"])}]}]
        text += "predicate %s(real x) {\n%s}\n" % (p, body)
    # a sub-predicate with one more argument: its atoms are also instances of the base predicate, but a goal on the base predicate is not one of them
    subp = None
    if rnd.random() < 0.35:
        subp = rnd.choice(order)
        text += "predicate S0(real x, real y) : %s {\n}\n" % subp
    # a recursive predicate that terminates only by unifying with a fact
    rec = rnd.random() < 0.6
    if rec:
        text += "predicate R(real n) {\n    n >= 0.0;\n    goal r = new R(n:n - 1.0);\n}\n"
        preds["R"] = {"subs": [{"name": "r", "pred": "R", "arg": ("sub", [("id", ["n"]), num(1)])}], "cons": [("geq", ("id", ["n"]), num(0))], "disj": None, "argname": "n"}
    stmts = []
    goals = []
    for i in range(rnd.randint(1, 3)):
        p = rnd.choice(order)
        v = rnd.randint(3, 9)
        kind = "goal" if rnd.random() < 0.8 else "fact"
        stmts.append("%s g%d = new %s(x:%s);" % (kind, i, p, f2(v)))
        goals.append({"name": "g%d" % i, "pred": p, "kind": kind})
    # facts that goals / sub-goals may unify with
    for i in range(rnd.randint(0, 3)):
        p = rnd.choice(order)
        stmts.append("fact f%d = new %s(x:%s);" % (i, p, f2(rnd.randint(3, 11))))
    if subp:
        vals = [g for g in goals if g["pred"] == subp]
        v = rnd.randint(3, 9)
        m = None
        for st in stmts:
            if vals and st.startswith("%s %s = new %s(x:" % (vals[0]["kind"], vals[0]["name"], subp)):
                m = st[st.index("(x:") + 3:st.index(")")]
        stmts.append("fact q0 = new S0(x:%s, y:5.0);" % (m if m and rnd.random() < 0.8 else f2(v)))
    if rec:
        stmts.append("fact r0 = new R(n:0.0);")
        stmts.append("goal rg = new R(n:%s);" % f2(rnd.randint(1, 3)))
    rnd.shuffle(stmts)
    return {"family": "rules", "id": "rules-%d" % idx, "text": text + "\n".join(stmts) + "\n", "preds": preds, "planted": True}


def gen_sx(rnd, idx):
    """small scheduling problems that are NOT planted: state variables and reusable resources with random windows, durations, precedences and a
    random horizon, so that about half of them have no schedule; the structured description in 'spec' is what the z3 ground truth is built from.
    Durations are >= 1 (closed / half-open overlap coincide) and arguments are mostly distinct (unification mostly impossible)."""
    text = "class SV : StateVariable {\n    predicate P0(real x) { duration >= 1.0; }\n    predicate P1(real x) { duration >= 2.0; }\n}\n"
    nsv = rnd.randint(1, 2)
    nrr = rnd.randint(0, 2)
    insts = []
    for k in range(nsv):
        insts.append({"name": "sv%d" % k, "type": "sv"})
        text += "SV sv%d = new SV();\n" % k
    for k in range(nrr):
        cap = Fraction(rnd.randint(2, 6))
        insts.append({"name": "rr%d" % k, "type": "rr", "cap": cap})
        text += "ReusableResource rr%d = new ReusableResource(%s);\n" % (k, f2(cap))
    n = rnd.randint(2, 5)
    T = rnd.randint(4, 10)
    atoms = []
    stmts = []
    bounds = []
    allconst = rnd.random() < 0.15      # every atom with constant start, end and duration: nothing changes after the atoms become active
    for i in range(n):
        typ = "rr" if nrr and rnd.random() < 0.45 else "sv"
        cands = [j for j, x in enumerate(insts) if x["type"] == typ]
        a = {"name": "a%d" % i, "type": typ, "kind": "fact" if rnd.random() < 0.5 else "goal"}
        if len(cands) > 1 and rnd.random() < 0.35:
            a["insts"] = cands
            scope = "v%d" % i
            stmts.append("%s %s;" % ("SV" if typ == "sv" else "ReusableResource", scope))
        else:
            a["insts"] = [rnd.choice(cands)]
            scope = insts[a["insts"][0]]["name"]
        args = []
        if typ == "sv":
            p = rnd.randint(0, 1)
            a["pred"] = "P%d" % p
            a["dmin"] = Fraction(1 + p)
            a["arg"] = Fraction(i if rnd.random() < 0.85 else 0)
            args.append("x:%s" % f2(a["arg"]))
        else:
            a["pred"] = "Use"
            a["dmin"] = Fraction(1)
            a["arg"] = Fraction(rnd.randint(1, 8), 2)
            args.append("amount:%s" % f2(a["arg"]))
        cons = []
        lo = Fraction(rnd.randint(0, T - 1))
        dur = a["dmin"] + rnd.choice([0, 0, 1, 2])
        hi = lo + dur + rnd.choice([0, 1, 2, 4, 6])
        mode = rnd.random() if not allconst else 0.0
        a["start_eq"] = a["end_eq"] = a["dur_eq"] = None
        a["lo"] = a["hi"] = None
        a["dur_ge"] = a["dmin"]
        if mode < 0.25:
            a["start_eq"], a["end_eq"] = lo, lo + dur
            args += ["start:%s" % f2(lo), "end:%s" % f2(lo + dur)]
            if allconst or rnd.random() < 0.5:
                args += ["duration:%s" % f2(dur)]
        elif mode < 0.45:
            a["dur_eq"] = dur
            a["lo"], a["hi"] = lo, hi
            args += ["duration:%s" % f2(dur)]
            cons += ["%s.start >= %s;" % (a["name"], f2(lo)), "%s.end <= %s;" % (a["name"], f2(hi))]
        else:
            a["lo"], a["hi"] = lo, hi
            a["dur_ge"] = max(a["dmin"], dur if rnd.random() < 0.6 else Fraction(1))
            cons += ["%s.start >= %s;" % (a["name"], f2(lo)), "%s.end <= %s;" % (a["name"], f2(hi)), "%s.duration >= %s;" % (a["name"], f2(a["dur_ge"]))]
        stmts.append("%s %s = new %s.%s(%s);" % (a["kind"], a["name"], scope, a["pred"], ", ".join(args)))
        stmts += cons
        atoms.append(a)
        bounds.append(len(stmts))
    prec = []
    for _ in range(rnd.choice([0, 0, 1, 2])):
        i, j = rnd.sample(range(n), 2)
        prec.append((i, j))
        stmts.append("a%d.end <= a%d.start;" % (i, j))
    H = Fraction(rnd.randint(T + 1, T + 12))
    stmts.append("horizon <= %s;" % f2(H))
    k = bounds[rnd.randrange(len(bounds) - 1)] if len(bounds) > 1 else None
    parts = [text + "\n".join(stmts[:k]) + "\n", "\n".join(stmts[k:]) + "\n"] if k else None
    text += "\n".join(stmts) + "\n"
    return {"family": "sx", "id": "sx-%d" % idx, "text": text, "atoms": atoms, "insts": insts, "planted": False, "parts": parts,
            "spec": {"atoms": atoms, "insts": insts, "prec": prec, "horizon": H}}


def gen_cyc(rnd, idx):
    """domains in which goals can only be *justified* through a base case but could 'support each other' in a circle (being somewhere needs a move,
    a move needs being somewhere else): an independent, cheaper choice first removes the base case, so the circular unifications are what
    propagation suggests; the only plans open the base case.  Solvable by construction (base case reachable)."""
    if rnd.random() < 0.4:
        # a goal whose rule leads, through a disjunction, either back to a goal of its own predicate (which could be unified with the very goal it
        # descends from) or to a base case that a separate choice may rule out
        P, Q, B = rnd.choice([("P", "Q", "Base"), ("Need", "Via", "Ground"), ("Open", "Step", "Root")])
        lim = rnd.choice([0, 0.5])
        first_rec = rnd.random() < 0.6
        rec = "{\n        goal p = new %s();\n    }" % P
        base = "{\n        fact b = new %s();\n        n >= 1;\n    }" % B
        text = "real x;\n\npredicate %s() {\n}\n\npredicate %s(real n) {\n    goal q = new %s(n:n);\n}\n\n" % (B, P, Q)
        text += "predicate %s(real n) {\n    %s or %s\n}\n\n" % (Q, rec if first_rec else base, base if first_rec else rec)
        c = rnd.randint(1, 5)
        stmts = ["{\n    x <= 0;\n} [%d] or {\n    x <= %s;\n} [%d]" % (c, lim, c), "goal g = new %s(n:x);" % P]
        rnd.shuffle(stmts)
        return {"family": "cyc", "id": "cyc-%d" % idx, "text": text + "\n".join(stmts) + "\n", "planted": False}
    nl = rnd.randint(2, 3)
    locs = rnd.sample([1, 2, 3, 4, 6], nl)
    P, M, C = rnd.choice([("At", "Move", "Configure"), ("In", "Go", "Setup"), ("Has", "Fetch", "Prepare")])
    gate = rnd.choice(["depot", "sw"])
    closed = rnd.choice([5, 1, 7])
    c1, c2 = rnd.choice([(10, 11), (1, 2), (3, 3), (2, 9)])
    base_first = rnd.random() < 0.7
    base = "{\n        l == 0.0;\n        %s == 0.0;\n    }" % gate
    step = "{\n        goal m = new %s(to:l);\n    }" % M
    text = "real %s;\n\n" % gate
    text += "predicate %s(real l) {\n    %s or %s\n}\n\n" % (P, base if base_first else step, step if base_first else base)
    text += "predicate %s(real from, real to) {\n    goal a = new %s(l:from);\n%s}\n\n" % (M, P, "    from >= 0.0;\n" if rnd.random() < 0.5 else "")
    opts = ["{\n        %s == %d.0;\n    } [%d.0]" % (gate, closed, c1), "{\n        %s == 0.0;\n    } [%d.0]" % (gate, c2)]
    text += "predicate %s() {\n    %s or %s\n}\n\n" % (C, opts[0], opts[1])
    stmts = ["goal g%d = new %s(l:%d.0);" % (i, P, l) for i, l in enumerate(locs)]
    stmts.append("goal c = new %s();" % C)
    rnd.shuffle(stmts)
    return {"family": "cyc", "id": "cyc-%d" % idx, "text": text + "\n".join(stmts) + "\n", "planted": True}


def gen_sync(rnd, idx):
    """atoms on different timelines tied together by relative temporal constraints (windows between starts / ends, equalities, precedences): delaying or
    freezing one of them puts pressure on the others.  Built around a planted schedule."""
    bare = rnd.random() < 0.4       # durations stated by constraints between end and start, positions only relative to other atoms
    text = "class Arm : StateVariable {\n    predicate Reach(real x) { %s}\n    predicate Hold(real x) { %s}\n}\n" % (("", "") if bare else ("duration >= 2.0; ", "duration >= 1.0; "))
    text += "class Cam : Agent {\n    predicate Rec(real k) : Interval { duration >= 1.0; }\n    predicate Snap() : Impulse { }\n}\n"
    text += "Arm arm0 = new Arm();\nArm arm1 = new Arm();\nCam cam = new Cam();\n"
    n = rnd.randint(2, 5)
    atoms = []
    tcur = {"arm0": Fraction(rnd.randint(0, 2)), "arm1": Fraction(rnd.randint(0, 2))}
    stmts = []
    for i in range(n):
        c = rnd.random()
        nm = "a%d" % i
        if c < 0.55:
            inst = rnd.choice(["arm0", "arm1"])
            pred, dmin = rnd.choice([("Reach", 2), ("Hold", 1)])
            s = tcur[inst] + rnd.choice([0, 1, 2])
            e = s + dmin + rnd.choice([0, 1, 3])
            tcur[inst] = e
            atoms.append({"name": nm, "start": s, "end": e})
            stmts.append("%s %s = new %s.%s(x:%d.0);" % ("fact" if bare or rnd.random() < 0.3 else "goal", nm, inst, pred, i))
            if bare:
                stmts.append("%s.end >= %s.start + %s;" % (nm, nm, f2(dmin)))
        elif c < 0.85:
            s = Fraction(rnd.randint(0, 8))
            e = s + 1 + rnd.choice([0, 1, 2])
            atoms.append({"name": nm, "start": s, "end": e})
            stmts.append("%s %s = new cam.Rec(k:%d.0);" % (rnd.choice(["goal", "fact"]), nm, i))
        else:
            s = Fraction(rnd.randint(0, 10))
            atoms.append({"name": nm, "at": s})
            stmts.append("%s %s = new cam.Snap();" % (rnd.choice(["goal", "fact"]), nm))

    def pt(a):
        if "at" in a:
            return a["name"] + ".at", a["at"]
        k = rnd.choice(["start", "end"])
        return a["name"] + "." + k, a[k]
    horizon = max([a.get("end", a.get("at")) for a in atoms])
    for a in atoms:
        p, v = pt(a)
        if rnd.random() < (0.15 if bare else 0.6):
            stmts.append("%s >= %s;" % (p, f2(max(Z, v - rnd.choice([0, 0, 1, 2])))))
    for _ in range(rnd.randint(1, 4)):
        if len(atoms) < 2:
            break
        a, b = rnd.sample(atoms, 2)
        (pa, va), (pb, vb) = pt(a), pt(b)
        d = vb - va
        c = rnd.random()
        if c < 0.4:
            lo, hi = d - rnd.choice([0, 0, 1]), d + rnd.choice([0, 1, 2])
            stmts.append("%s >= %s + %s;" % (pb, pa, f2(lo)) if lo >= 0 else "%s + %s >= %s;" % (pb, f2(-lo), pa))
            stmts.append("%s <= %s + %s;" % (pb, pa, f2(hi)) if hi >= 0 else "%s + %s <= %s;" % (pb, f2(-hi), pa))
        elif c < 0.6:
            stmts.append("%s == %s + %s;" % (pb, pa, f2(d)) if d >= 0 else "%s + %s == %s;" % (pb, f2(-d), pa))
        elif d >= 0:
            stmts.append("%s <= %s;" % (pa, pb))
        else:
            stmts.append("%s <= %s;" % (pb, pa))
    stmts.append("horizon <= %s;" % f2(horizon + rnd.choice([2, 5, 10, 20])))
    return {"family": "sync", "id": "sync-%d" % idx, "text": text + "\n".join(stmts) + "\n", "planted": True}


def gen_task(rnd, idx):
    """activities that need a resource / a state variable through their RULE: the Use / state-variable atoms are created below a choice point (inside a
    rule body or one branch of a disjunction), i.e. they are not active when they are created.  Horizon and capacities are chosen so that the activities
    fit only if the resources are really shared out.  Solvable by construction."""
    nres = rnd.randint(1, 2)
    cap = rnd.randint(3, 6)
    amt = rnd.randint(2, cap)
    par = cap // amt                      # activities one resource can host at the same time
    d = rnd.randint(1, 3)
    k = rnd.randint(2, 5)
    names = ["crane", "hoist"][:nres]
    # sometimes the capacity is not a constant: part of it is set aside by a decision taken during the search (both alternatives leave `cap`)
    derate = rnd.random() < 0.3
    if derate:
        extra = rnd.randint(1, 4)
        text = "real reserve;\nreserve >= 0.0;\nreserve <= %d.0;\n" % (extra + 1)
        text += "".join("ReusableResource %s = new ReusableResource(%d.0 - reserve);\n" % (n, cap + extra) for n in names)
    else:
        text = "".join("ReusableResource %s = new ReusableResource(%d.0);\n" % (n, cap) for n in names)
    use_sv = rnd.random() < 0.4
    if use_sv:
        text += "class Dock : StateVariable {\n    predicate Busy(real w) { duration >= 1.0; }\n}\nDock dock = new Dock();\n"
    kind = rnd.choice(["fact", "fact", "goal"])
    dur = ", duration:%d.0" % d if rnd.random() < 0.6 else ""

    def branch(n):
        b = "        %s u = new %s.Use(amount:%d.0%s);\n        u.start >= start; u.end <= end;%s\n" % (kind, n, amt, dur, "" if dur else " u.duration >= %d.0;" % d)
        return b
    body = "    duration >= %d.0;\n" % d
    if nres == 1:
        body += branch(names[0]).replace("        ", "    ")
    else:
        c = rnd.random() < 0.4
        body += "    {\n%s    }%s or {\n%s    }%s\n" % (branch(names[0]), " [%d.0]" % rnd.randint(1, 5) if c else "", branch(names[1]), " [%d.0]" % rnd.randint(1, 5) if c else "")
    if use_sv and rnd.random() < 0.7:
        body += "    goal b = new dock.Busy(w:id);\n    b.start >= start; b.end <= end;\n"
        par_total = 1
    else:
        par_total = par * nres
    text += "predicate Lift(real id) : Interval {\n%s}\n" % body
    stmts = ["goal l%d = new Lift(id:%d.0);" % (i, i) for i in range(k)]
    rounds = -(-k // par_total)
    H = rounds * d + rnd.choice([0, 0, 1, 3])
    stmts.append("horizon <= %d.0;" % H)
    if derate:
        stmts.append("{ reserve >= %d.0; } or { reserve == %d.0; }" % (extra, extra))
    rnd.shuffle(stmts)
    if rnd.random() < 0.3 and k >= 2:
        stmts.append("l0.end <= l1.start;" if rounds >= 2 else "l0.start <= l1.start;")
    return {"family": "task", "id": "task-%d" % idx, "text": text + "\n".join(stmts) + "\n", "planted": True, "derate": derate}
