"""RIDDLE workload families (see DESIGN.md Appendix C).  Every generator returns a dict with at least
   'text' (the program), 'family', and whatever its oracle needs (AST pieces, planted values)."""
from fractions import Fraction

from vlib import riddle
from vlib.riddle import ExprGen, Printer, ev, num

Z = Fraction(0)


def _layout(rnd, stmts):
    """join statements with random line breaks / comments"""
    out = []
    for s in stmts:
        c = rnd.random()
        if c < 0.08:
            out.append("// note %d\n" % rnd.randint(0, 99))
        elif c < 0.12:
            out.append("/* block\n   comment */")
        out.append(s)
    sep = "\n" if rnd.random() < 0.8 else " "
    return sep.join(out) + "\n"


def planted_value(rnd):
    return Fraction(rnd.randint(-6, 12), rnd.choice([1, 1, 1, 2]))


def gen_cons(rnd, idx, force_sat=None):
    """constraint-only program over reals / ints / bools, built around a planted assignment (mostly)"""
    nr = rnd.randint(1, 5)
    nb = rnd.randint(0, 3)
    reals = ["x%d" % i for i in range(nr)]
    bools = ["b%d" % i for i in range(nb)]
    kinds = {v: ("int" if rnd.random() < 0.2 else "real") for v in reals}
    planted = {}
    for v in reals:
        planted[v] = (Fraction(rnd.randint(-6, 12)) if kinds[v] == "int" else planted_value(rnd), Z)
    for b in bools:
        planted[b] = rnd.random() < 0.5
    g = ExprGen(rnd, reals, bools)
    sat_mode = force_sat if force_sat is not None else (rnd.random() < 0.8)
    cons = []
    for _ in range(rnd.randint(2, 8)):
        e = g.boolean(rnd.randint(1, 3))
        if sat_mode:
            try:
                v = ev(e, planted)
            except riddle.Unknown:
                continue
            if v is not True:
                e = ("not", e)
        cons.append(e)
    pr = Printer(rnd)
    decls = []
    for v in reals:
        decls.append("%s %s;" % (kinds[v], v))
    for b in bools:
        decls.append("bool %s;" % b)
    rnd.shuffle(decls)
    stmts = decls + [pr.expr(e) + ";" for e in cons]
    return {"family": "cons", "id": "cons-%d" % idx, "text": _layout(rnd, stmts), "reals": reals, "bools": bools, "kinds": kinds,
            "cons": cons, "planted": planted if sat_mode else None}


def gen_pin(rnd, idx):
    """every variable is pinned to a constant expression: the solution must report exactly the denoted value"""
    pr = Printer(rnd, redundant=0.25)
    g = ExprGen(rnd, [], [], consts_only=True)
    stmts = []
    expect = {}
    exprs = {}
    n = rnd.randint(1, 5)
    for i in range(n):
        v = "v%d" % i
        e = g.const_tree(rnd.randint(1, 4))
        try:
            val = ev(e, {})
        except (riddle.Unknown, ZeroDivisionError):
            continue
        if abs(val[0].numerator) > 10 ** 9 or val[0].denominator > 10 ** 9:
            continue
        mode = rnd.random()
        if mode < 0.6:
            stmts.append("real %s;" % v)
            if rnd.random() < 0.5:
                stmts.append("%s == %s;" % (v, pr.expr(e, 1)))
            else:
                stmts.append("%s == %s;" % (pr.expr(e, 1), v))
        else:
            stmts.append("real %s = %s;" % (v, pr.expr(e)))
        expect[v] = val
        exprs[v] = e
    for i in range(rnd.randint(0, 3)):
        b = "p%d" % i
        e = g_bool_const(rnd, g, rnd.randint(1, 3))
        try:
            val = ev(e, {})
        except (riddle.Unknown, ZeroDivisionError):
            continue
        if val is None:
            continue
        if rnd.random() < 0.6:
            stmts.append("bool %s;" % b)
            stmts.append("%s == %s;" % (b, pr.expr(e, 1)))
        else:
            stmts.append("bool %s = %s;" % (b, pr.expr(e)))
        expect[b] = val
        exprs[b] = e
    return {"family": "pin", "id": "pin-%d" % idx, "text": _layout(rnd, stmts), "expect": expect, "exprs": exprs}


def g_bool_const(rnd, g, depth):
    if depth <= 0 or rnd.random() < 0.25:
        c = rnd.random()
        if c < 0.25:
            return ("bool", rnd.random() < 0.5)
        return (rnd.choice(["lt", "leq", "geq", "gt", "eq", "neq"]), g.const_tree(1), g.const_tree(1))
    c = rnd.random()
    if c < 0.25:
        return ("and", [g_bool_const(rnd, g, depth - 1) for _ in range(rnd.randint(2, 3))])
    if c < 0.5:
        return ("or", [g_bool_const(rnd, g, depth - 1) for _ in range(rnd.randint(2, 3))])
    if c < 0.62:
        args = []
        for _ in range(rnd.randint(2, 3)):
            a = g_bool_const(rnd, g, depth - 1)
            if repr(riddle.strip_nn(a)) not in [repr(riddle.strip_nn(x)) for x in args]:
                args.append(a)
        return ("xor", args) if len(args) > 1 else args[0]
    if c < 0.75:
        return ("imp", g_bool_const(rnd, g, depth - 1), g_bool_const(rnd, g, depth - 1))
    if c < 0.9:
        return ("not", g_bool_const(rnd, g, depth - 1))
    return (rnd.choice(["eq", "neq"]), g_bool_const(rnd, g, depth - 1), g_bool_const(rnd, g, depth - 1))
