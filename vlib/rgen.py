"""RIDDLE workload families (see DESIGN.md Appendix C).  Every generator returns a dict with at least
   'text' (the program), 'family', and whatever its oracle needs (AST pieces, planted values)."""
from fractions import Fraction

from vlib import riddle
from vlib.riddle import ExprGen, Printer, ev, num

Z = Fraction(0)


def _layout(rnd, stmts):
    """join statements with random line breaks / comments"""
    out = []
    for s in stmts:
        c = rnd.random()
        if c < 0.08:
            out.append("// note %d\n" % rnd.randint(0, 99))
        elif c < 0.12:
            out.append("/* block\n   comment */")
        out.append(s)
    sep = "\n" if rnd.random() < 0.8 else " "
    return sep.join(out) + "\n"


def planted_value(rnd):
    return Fraction(rnd.randint(-6, 12), rnd.choice([1, 1, 1, 2]))


def gen_cons(rnd, idx, force_sat=None):
    """constraint-only program over reals / ints / bools, built around a planted assignment (mostly)"""
    nr = rnd.randint(1, 5)
    nb = rnd.randint(0, 3)
    reals = ["x%d" % i for i in range(nr)]
    bools = ["b%d" % i for i in range(nb)]
    kinds = {v: ("int" if rnd.random() < 0.2 else "real") for v in reals}
    planted = {}
    for v in reals:
        planted[v] = (Fraction(rnd.randint(-6, 12)) if kinds[v] == "int" else planted_value(rnd), Z)
    for b in bools:
        planted[b] = rnd.random() < 0.5
    g = ExprGen(rnd, reals, bools)
    sat_mode = force_sat if force_sat is not None else (rnd.random() < 0.8)
    cons = []
    for _ in range(rnd.randint(2, 8)):
        e = g.boolean(rnd.randint(1, 3))
        if sat_mode:
            try:
                v = ev(e, planted)
            except riddle.Unknown:
                continue
            if v is not True:
                e = ("not", e)
        cons.append(e)
    pr = Printer(rnd)
    decls = []
    for v in reals:
        decls.append("%s %s;" % (kinds[v], v))
    for b in bools:
        decls.append("bool %s;" % b)
    rnd.shuffle(decls)
    stmts = decls + [pr.expr(e) + ";" for e in cons]
    # disjunction statements: blocks of simple bounds on shared expressions (a block may be contradictory in itself; atoms recur across blocks)
    for _ in range(rnd.choice([0, 0, 1, 1, 2])):
        v = ("id", [rnd.choice(reals)])
        w = ("id", [rnd.choice(reals)])
        atoms = []
        for _k in range(rnd.randint(2, 4)):
            x = rnd.choice([v, v, w, ("add", [v, w]), ("sub", [v, w])])
            atoms.append((rnd.choice(["leq", "geq", "leq", "geq", "lt", "gt", "eq"]), x, num(rnd.randint(-3, 12))))
        blocks = []
        for _k in range(rnd.randint(2, 3)):
            blocks.append([rnd.choice(atoms) for _j in range(rnd.randint(1, 3))])
        if sat_mode:
            try:
                good = [a for a in atoms if ev(a, planted) is True]
            except riddle.Unknown:
                continue
            if not good:
                continue
            blocks[rnd.randrange(len(blocks))] = [rnd.choice(good) for _j in range(rnd.randint(1, 2))]
        extra_txt = [[] for _ in blocks]
        if rnd.random() < 0.35:
            # the same '|' expression over theory atoms stated in several branches (only the chosen branch's copy matters)
            x = rnd.choice([v, w])
            lo = rnd.randint(2, 6)
            D = ("or", [("geq", x, num(lo)), ("leq", x, ("neg", num(lo)))])
            if not sat_mode or ev(D, planted) is True:
                for blk in blocks:
                    blk.append(D)
        if rnd.random() < 0.35:
            # every branch declares a local constant under the same name and uses it
            tgt = rnd.choice(reals)
            loc = "k%d" % rnd.randint(0, 9)
            vals = [Fraction(rnd.randint(-3, 9)) for _ in blocks]
            if sat_mode:
                ok_idx = [i for i, blk in enumerate(blocks) if all(ev(a, planted) is True for a in blk)]
                if ok_idx:
                    vals[ok_idx[0]] = planted[tgt][0]
            if not sat_mode or any(vals[i] == planted[tgt][0] and all(ev(a, planted) is True for a in blocks[i]) for i in range(len(blocks))):
                for i, blk in enumerate(blocks):
                    blk.append(("eq", ("id", [tgt]), num(vals[i], "real") if vals[i] >= 0 else ("neg", num(-vals[i], "real"))))
                    extra_txt[i] = ["real %s = %s;" % (loc, riddle.fmt_num(abs(vals[i]), "real") if vals[i] >= 0 else "-" + riddle.fmt_num(-vals[i], "real")), "%s == %s;" % (tgt, loc)]
        e = ("or", [("and", blk) if len(blk) > 1 else blk[0] for blk in blocks])
        cons.append(e)
        costs = rnd.random() < 0.4

        def blk_text(i, blk):
            body = blk[:-1] if extra_txt[i] else blk       # the last atom of the block is written through the local constant
            return "{ " + " ".join([pr.expr(a) + ";" for a in body] + extra_txt[i]) + " }" + (" [%d.0]" % rnd.randint(1, 9) if costs else "")
        stmts.append(" or ".join(blk_text(i, blk) for i, blk in enumerate(blocks)))
    return {"family": "cons", "id": "cons-%d" % idx, "text": _layout(rnd, stmts), "reals": reals, "bools": bools, "kinds": kinds,
            "cons": cons, "planted": planted if sat_mode else None, "parts": _two_parts(rnd, len(decls), stmts)}


def _two_parts(rnd, ndecl, stmts):
    """the same program as two scripts: declarations and some of the constraints, then the rest (incremental reading)"""
    body = stmts[ndecl:]
    if len(body) < 2:
        return None
    k = rnd.randint(1, len(body) - 1)
    return ["\n".join(stmts[:ndecl + k]) + "\n", "\n".join(body[k:]) + "\n"]


def gen_pin(rnd, idx):
    """every variable is pinned to a constant expression: the solution must report exactly the denoted value"""
    pr = Printer(rnd, redundant=0.25)
    g = ExprGen(rnd, [], [], consts_only=True)
    stmts = []
    expect = {}
    exprs = {}
    n = rnd.randint(1, 5)
    for i in range(n):
        v = "v%d" % i
        e = g.const_tree(rnd.randint(1, 4))
        try:
            val = ev(e, {})
        except (riddle.Unknown, ZeroDivisionError):
            continue
        if abs(val[0].numerator) > 10 ** 9 or val[0].denominator > 10 ** 9:
            continue
        mode = rnd.random()
        if mode < 0.6:
            stmts.append("real %s;" % v)
            if rnd.random() < 0.5:
                stmts.append("%s == %s;" % (v, pr.expr(e, 1)))
            else:
                stmts.append("%s == %s;" % (pr.expr(e, 1), v))
        else:
            stmts.append("real %s = %s;" % (v, pr.expr(e)))
        expect[v] = val
        exprs[v] = e
    for i in range(rnd.randint(0, 3)):
        b = "p%d" % i
        e = g_bool_const(rnd, g, rnd.randint(1, 3))
        try:
            val = ev(e, {})
        except (riddle.Unknown, ZeroDivisionError):
            continue
        if val is None:
            continue
        if rnd.random() < 0.6:
            stmts.append("bool %s;" % b)
            stmts.append("%s == %s;" % (b, pr.expr(e, 1)))
        else:
            stmts.append("bool %s = %s;" % (b, pr.expr(e)))
        expect[b] = val
        exprs[b] = e
    head = ""
    if rnd.random() < 0.3:
        # a method with a return value, called (also with the result of another call) from the constructor of its class
        A, C, C2 = g.const(), g.const(), g.const_tree(1)
        # (the argument is a real literal: whether an int expression may be passed for a real parameter is not documented)
        e1, e2 = num(Fraction(rnd.randint(0, 99), rnd.choice([2, 4, 5, 10])), "real"), g.const_tree(1)
        if rnd.random() < 0.3:
            e1 = ("neg", e1)
        f = lambda x: ("add", [("mul", [x, A]), C, C2])
        r0 = f(e1)
        r1 = ("add", [f(r0), e2])
        try:
            v0, v1 = ev(r0, {}), ev(r1, {})
            ok = all(abs(v[0].numerator) < 10 ** 9 and v[0].denominator < 10 ** 9 for v in (v0, v1))
        except (riddle.Unknown, ZeroDivisionError):
            ok = False
        if ok:
            # (several declarators in one field declaration, the later ones with initialisers of their own)
            head = ("class K {\n    real k = %s, k2 = %s;\n    real r0, r1;\n    K() { r0 == f(%s); r1 == f(r0) + %s; }\n    real f(real x) { return x * %s + k + k2; }\n}\nK q = new K();\n"
                    % (pr.expr(C), pr.expr(C2), pr.expr(e1), pr.expr(e2, 3), pr.expr(A, 4)))
            try:
                expect["q.k"], expect["q.k2"] = ev(C, {}), ev(C2, {})
                exprs["q.k"], exprs["q.k2"] = C, C2
            except (riddle.Unknown, ZeroDivisionError):
                pass
            expect["q.r0"], expect["q.r1"] = v0, v1
            exprs["q.r0"], exprs["q.r1"] = r0, r1
    return {"family": "pin", "id": "pin-%d" % idx, "text": head + _layout(rnd, stmts), "expect": expect, "exprs": exprs}


def g_bool_const(rnd, g, depth):
    if depth <= 0 or rnd.random() < 0.25:
        c = rnd.random()
        if c < 0.25:
            return ("bool", rnd.random() < 0.5)
        return (rnd.choice(["lt", "leq", "geq", "gt", "eq", "neq"]), g.const_tree(1), g.const_tree(1))
    c = rnd.random()
    if c < 0.25:
        return ("and", [g_bool_const(rnd, g, depth - 1) for _ in range(rnd.randint(2, 3))])
    if c < 0.5:
        return ("or", [g_bool_const(rnd, g, depth - 1) for _ in range(rnd.randint(2, 3))])
    if c < 0.62:
        args = []
        for _ in range(rnd.randint(2, 3)):
            a = g_bool_const(rnd, g, depth - 1)
            if repr(riddle.strip_nn(a)) not in [repr(riddle.strip_nn(x)) for x in args]:
                args.append(a)
        return ("xor", args) if len(args) > 1 else args[0]
    if c < 0.75:
        return ("imp", g_bool_const(rnd, g, depth - 1), g_bool_const(rnd, g, depth - 1))
    if c < 0.9:
        return ("not", g_bool_const(rnd, g, depth - 1))
    return (rnd.choice(["eq", "neq"]), g_bool_const(rnd, g, depth - 1), g_bool_const(rnd, g, depth - 1))


def gen_tp(rnd, idx):
    """constraint-only program over time points (the `tp` type, handled by the real difference logic theory): difference constraints in all
    the accepted shapes, posted in random order, alone or inside disjunctions; mostly built around a planted assignment"""
    n = rnd.randint(2, 5) if rnd.random() < 0.9 else rnd.randint(15, 26)     # sometimes more time points than the initial size of the distance matrix
    tps = ["p%d" % i for i in range(n)]
    nb = rnd.randint(0, 2)
    bools = ["b%d" % i for i in range(nb)]
    planted = {v: (Fraction(rnd.randint(-4, 20), rnd.choice([1, 1, 2])), Z) for v in tps}
    for b in bools:
        planted[b] = rnd.random() < 0.5
    sat_mode = rnd.random() < 0.75

    def k():
        c = rnd.random()
        if c < 0.6:
            return num(rnd.randint(0, 12))
        return num(Fraction(rnd.randint(0, 40), rnd.choice([2, 4])), "real")

    def atom():
        x, y = rnd.sample(tps, 2)
        X, Y = ("id", [x]), ("id", [y])
        rel = rnd.choice(["leq", "geq", "lt", "gt", "eq", "leq", "geq", "leq"])
        shape = rnd.random()
        c = k()
        if rnd.random() < 0.3:
            c = ("neg", c)
        if shape < 0.3:
            return (rel, ("sub", [X, Y]), c)
        if shape < 0.45:
            return (rel, X, ("add", [Y, c]))
        if shape < 0.55:
            return (rel, ("add", [X, c]), Y)
        if shape < 0.65:
            return (rel, ("sub", [X, k()]), ("sub", [Y, c]))
        if shape < 0.8:
            return (rel, X, c)
        if shape < 0.9:
            return (rel, c, X)
        return (rel, X, Y)

    def fit(e):
        """make the atom true under the planted assignment by flipping / relaxing it"""
        try:
            v = ev(e, planted)
        except riddle.Unknown:
            return None
        if v is True:
            return e
        flip = {"leq": "gt", "gt": "leq", "geq": "lt", "lt": "geq"}
        if e[0] in flip:
            return (flip[e[0]], e[1], e[2])
        # an equality that does not hold: turn it into the inequality that does
        for r in ("leq", "geq"):
            if ev((r, e[1], e[2]), planted) is True:
                return (r, e[1], e[2])
        return None

    cons = []
    for _ in range(rnd.randint(2, 9) if n <= 5 else rnd.randint(n, 2 * n)):
        c = rnd.random()
        if c < 0.7:
            e = atom()
            if sat_mode:
                e = fit(e)
        else:
            parts = [atom() for _ in range(rnd.randint(2, 3))]
            if bools and rnd.random() < 0.4:
                b = rnd.choice(bools)
                parts.append(("id", [b]) if rnd.random() < 0.5 else ("not", ("id", [b])))
            if sat_mode:
                j = rnd.randrange(len(parts))
                f = fit(parts[j]) if parts[j][0] not in ("id", "not") else None
                if f is None:
                    f = fit(atom())
                if f is None:
                    continue
                parts[j] = f
            e = ("or", parts)
        if e is not None:
            cons.append(e)
    if sat_mode and rnd.random() < 0.5 and len(tps) >= 3:
        # an equality chain consistent with the plant: exercises new_eq and the joining of already constrained points
        x, y = rnd.sample(tps, 2)
        d = planted[x][0] - planted[y][0]
        cons.append(("eq", ("sub", [("id", [x]), ("id", [y])]), num(d, "real") if d >= 0 else ("neg", num(-d, "real"))))
    if rnd.random() < 0.8:
        # a time point without a lower bound is reported at -inf: bound them (consistently with the plant) so that the solution can be evaluated
        for v in tps:
            lo = planted[v][0] - rnd.choice([0, 0, 1, 3, 10])
            cons.append(("geq", ("id", [v]), num(lo, "real") if lo >= 0 else ("neg", num(-lo, "real"))))
    rnd.shuffle(cons)
    pr = Printer(rnd)
    decls = ["tp %s;" % v for v in tps] + ["bool %s;" % b for b in bools]
    rnd.shuffle(decls)
    stmts = decls + [pr.expr(e) + ";" for e in cons]
    return {"family": "tp", "id": "tp-%d" % idx, "text": _layout(rnd, stmts), "reals": tps, "bools": bools, "kinds": {v: "tp" for v in tps},
            "cons": cons, "planted": planted if sat_mode else None, "parts": _two_parts(rnd, len(decls), stmts)}


def equivalent_variant(rnd, case):
    """an equivalent formulation of a constraint-only case (cons / tp family): independent statements reordered, identifiers renamed,
    commutative arguments reordered, tautologies added; returns (text, what was done)"""
    what = []
    ren = {}
    names = list(case["reals"]) + list(case["bools"])
    if rnd.random() < 0.7:
        fresh = ["v%d" % i for i in range(40, 40 + len(names))]
        rnd.shuffle(fresh)
        ren = dict(zip(names, fresh))
        what.append("renamed")
    cons = [riddle.transform(e, rnd if rnd.random() < 0.7 else None, ren) for e in case["cons"]]
    if rnd.random() < 0.8:
        rnd.shuffle(cons)
        what.append("reordered")
    pr = Printer(rnd)
    stmts = [pr.expr(e) + ";" for e in cons]
    if rnd.random() < 0.6:
        what.append("tautologies")
        for _ in range(rnd.randint(1, 3)):
            c = rnd.random()
            if c < 0.3 or not names:
                t = "%d <= %d;" % (rnd.randint(0, 3), rnd.randint(3, 6))
            elif c < 0.6 and case["reals"]:
                v = ren.get(rnd.choice(case["reals"]), None) or rnd.choice(case["reals"])
                t = rnd.choice(["%s == %s;", "%s <= %s;", "%s >= %s;"]) % (v, v)
            elif case["bools"]:
                v = ren.get(rnd.choice(case["bools"]), None) or rnd.choice(case["bools"])
                t = "%s | !%s;" % (v, v)
            else:
                t = "true;"
            stmts.insert(rnd.randint(0, len(stmts)), t)
    decls = []
    for v in case["reals"]:
        decls.append("%s %s;" % (case["kinds"][v], ren.get(v, v)))
    for b in case["bools"]:
        decls.append("bool %s;" % ren.get(b, b))
    rnd.shuffle(decls)
    return _layout(rnd, decls + stmts), "+".join(what) or "relayout"
