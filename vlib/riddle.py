"""RIDDLE reference model: expression AST, pretty-printer with random layout, exact evaluator, z3 translation.

Expressions are tuples:
  ('num', Fraction, 'int'|'real')   ('bool', b)   ('id', ['a','b','c'])   ('neg', e) ('pos', e) ('not', e)
  ('add'|'sub'|'mul'|'div', [e..])  ('lt'|'leq'|'geq'|'gt'|'eq'|'neq', l, r)
  ('and'|'or'|'xor', [e..])  ('imp', l, r)
Precedence (from the language's parser): ==,!= (0) < relational and logical (1) < +,- (2) < *,/ (3) < unary (4).
"""
from fractions import Fraction

LEVEL = {"eq": 0, "neq": 0, "lt": 1, "leq": 1, "geq": 1, "gt": 1, "imp": 1, "or": 1, "and": 1, "xor": 1,
         "add": 2, "sub": 2, "mul": 3, "div": 3, "neg": 4, "pos": 4, "not": 4, "num": 5, "bool": 5, "id": 5}
SYM = {"eq": "==", "neq": "!=", "lt": "<", "leq": "<=", "geq": ">=", "gt": ">", "imp": "->", "or": "|", "and": "&", "xor": "^",
       "add": "+", "sub": "-", "mul": "*", "div": "/"}


def num(x, kind=None):
    x = Fraction(x)
    return ("num", x, kind or ("int" if x.denominator == 1 else "real"))


def fmt_num(x, kind, rnd=None):
    if kind == "int" and x.denominator == 1:
        return str(x.numerator)
    # a real literal needs a finite decimal expansion
    k = 1
    while (x * 10 ** k).denominator != 1:
        k += 1
        if k > 15:
            raise ValueError("no finite decimal for %s" % x)
    n = int(x * 10 ** k)
    s = str(abs(n)).rjust(k + 1, "0")
    return s[:-k] + "." + s[-k:]


class Printer:
    def __init__(self, rnd=None, redundant=0.15):
        self.rnd = rnd
        self.redundant = redundant

    def sp(self):
        if self.rnd is None:
            return " "
        c = self.rnd.random()
        if c < 0.75:
            return " "
        if c < 0.85:
            return ""
        if c < 0.92:
            return "  "
        if c < 0.96:
            return " /* c */ "
        return "\n    "

    def expr(self, e, need=0):
        k = e[0]
        lv = LEVEL[k]
        s = self._expr(e)
        paren = lv < need
        # optional redundant parentheses (never around a bare identifier: '(x) + 1' is a cast in this language)
        if not paren and self.rnd is not None and k not in ("id",) and self.rnd.random() < self.redundant:
            paren = True
        return "(" + s + ")" if paren else s

    def _expr(self, e):
        k = e[0]
        if k == "num":
            if e[1] < 0:
                return "-" + fmt_num(-e[1], e[2])
            return fmt_num(e[1], e[2])
        if k == "bool":
            return "true" if e[1] else "false"
        if k == "id":
            return ".".join(e[1])
        if k in ("neg", "pos", "not"):
            return {"neg": "-", "pos": "+", "not": "!"}[k] + self.expr(e[1], 4)
        lv = LEVEL[k]
        o = self.sp() + SYM[k] + self.sp()
        if k in ("eq", "neq"):
            return self.expr(e[1], 1) + o + self.expr(e[2], 1)
        if k in ("lt", "leq", "geq", "gt", "imp"):
            # operands of a level-1 operator are always written at level >= 2 (mixing level-1 operators without parentheses is not documented)
            return self.expr(e[1], 2) + o + self.expr(e[2], 2)
        if k in ("and", "or", "xor"):
            return o.join(self.expr(x, 2) for x in e[1])
        if k in ("add", "sub"):
            first = self.expr(e[1][0], 2)
            return first + "".join(o + self.expr(x, 3) for x in e[1][1:])
        if k in ("mul", "div"):
            first = self.expr(e[1][0], 3)
            return first + "".join(o + self.expr(x, 4) for x in e[1][1:])
        raise KeyError(k)


def show(e):
    return Printer(None, 0).expr(e)


# ---- evaluation ----------------------------------------------------------------------------------
class Unknown(Exception):
    pass


def ev(e, env):
    """arith values are pairs (rational, eps); booleans True/False/None (Kleene); objects are ids (ints)."""
    k = e[0]
    if k == "num":
        return (e[1], Fraction(0))
    if k == "bool":
        return e[1]
    if k == "id":
        name = ".".join(e[1])
        if name not in env:
            raise Unknown(name)
        return env[name]
    if k == "pos":
        return ev(e[1], env)
    if k == "neg":
        a = ev(e[1], env)
        return (-a[0], -a[1])
    if k == "not":
        a = ev(e[1], env)
        return None if a is None else (not a)
    if k == "add":
        r, s = Fraction(0), Fraction(0)
        for x in e[1]:
            a = ev(x, env)
            r, s = r + a[0], s + a[1]
        return (r, s)
    if k == "sub":
        a = ev(e[1][0], env)
        r, s = a
        for x in e[1][1:]:
            b = ev(x, env)
            r, s = r - b[0], s - b[1]
        return (r, s)
    if k == "mul":
        vals = [ev(x, env) for x in e[1]]
        # linear: at most one factor carries an infinitesimal part
        r, s = Fraction(1), Fraction(0)
        for a in vals:
            if s != 0 and a[1] != 0:
                raise Unknown("non-linear eps")
            r, s = r * a[0], (s * a[0] + r * a[1])
        return (r, s)
    if k == "div":
        a = ev(e[1][0], env)
        r, s = a
        for x in e[1][1:]:
            b = ev(x, env)
            if b[1] != 0 or b[0] == 0:
                raise Unknown("division by non-constant / zero")
            r, s = r / b[0], s / b[0]
        return (r, s)
    if k in ("lt", "leq", "geq", "gt"):
        a, b = ev(e[1], env), ev(e[2], env)
        return {"lt": a < b, "leq": a <= b, "geq": a >= b, "gt": a > b}[k]
    if k in ("eq", "neq"):
        a, b = ev(e[1], env), ev(e[2], env)
        if a is None or b is None:
            return None
        if isinstance(a, frozenset) or isinstance(b, frozenset):
            # object variables with several possible values: equality undetermined unless disjoint / identical singletons
            sa = a if isinstance(a, frozenset) else frozenset([a])
            sb = b if isinstance(b, frozenset) else frozenset([b])
            if not sa & sb:
                r = False
            elif len(sa) == 1 and sa == sb:
                r = True
            else:
                return None
        else:
            r = a == b
        return r if k == "eq" else (not r)
    if k == "and":
        vals = [ev(x, env) for x in e[1]]
        if any(v is False for v in vals):
            return False
        return None if any(v is None for v in vals) else True
    if k == "or":
        vals = [ev(x, env) for x in e[1]]
        if any(v is True for v in vals):
            return True
        return None if any(v is None for v in vals) else False
    if k == "xor":
        vals = [ev(x, env) for x in e[1]]
        trues = [strip_nn(x) for x, v in zip(e[1], vals) if v is True]
        if len(trues) > 1 and len(set(map(repr, trues))) < len(trues):
            # 'a ^ a': exactly-one over a repeated argument is read differently by different people (set vs multiset): not judged
            raise Unknown("xor with a repeated true argument")
        if any(v is None for v in vals):
            if len(trues) > 1:
                return False
            return None
        return len(trues) == 1
    if k == "imp":
        a, b = ev(e[1], env), ev(e[2], env)
        if a is False or b is True:
            return True
        if a is None or b is None:
            return None
        return False
    raise KeyError(k)


def transform(e, rnd, ren):
    """a semantically equivalent expression: identifiers renamed through `ren`, arguments of the commutative operators reordered"""
    k = e[0]
    if k == "id":
        return ("id", [ren.get(e[1][0], e[1][0])] + list(e[1][1:]))
    if k in ("num", "bool"):
        return e
    out = [k]
    for x in e[1:]:
        if isinstance(x, tuple):
            out.append(transform(x, rnd, ren))
        elif isinstance(x, list):
            ys = [transform(y, rnd, ren) if isinstance(y, tuple) else y for y in x]
            if k in ("and", "or", "add", "mul") and rnd is not None:
                rnd.shuffle(ys)
            out.append(ys)
        else:
            out.append(x)
    return tuple(out)


def strip_nn(e):
    while e[0] == "not" and e[1][0] == "not":
        e = e[1][1]
    return e


# ---- z3 translation ------------------------------------------------------------------------------
def to_z3(e, zenv, z3):
    k = e[0]
    if k == "num":
        return z3.RealVal(str(e[1]))
    if k == "bool":
        return z3.BoolVal(e[1])
    if k == "id":
        return zenv[".".join(e[1])]
    if k == "pos":
        return to_z3(e[1], zenv, z3)
    if k == "neg":
        return -to_z3(e[1], zenv, z3)
    if k == "not":
        return z3.Not(to_z3(e[1], zenv, z3))
    if k in ("add", "sub", "mul", "div"):
        xs = [to_z3(x, zenv, z3) for x in e[1]]
        r = xs[0]
        for x in xs[1:]:
            r = {"add": r + x, "sub": r - x, "mul": r * x, "div": r / x}[k]
        return r
    if k in ("lt", "leq", "geq", "gt", "eq", "neq"):
        a, b = to_z3(e[1], zenv, z3), to_z3(e[2], zenv, z3)
        if k == "eq":
            return a == b
        if k == "neq":
            return a != b
        return {"lt": lambda: a < b, "leq": lambda: a <= b, "geq": lambda: a >= b, "gt": lambda: a > b}[k]()
    if k == "and":
        return z3.And([to_z3(x, zenv, z3) for x in e[1]])
    if k == "or":
        return z3.Or([to_z3(x, zenv, z3) for x in e[1]])
    if k == "xor":
        xs = [to_z3(x, zenv, z3) for x in e[1]]
        return z3.PbEq([(x, 1) for x in xs], 1)
    if k == "imp":
        return z3.Implies(to_z3(e[1], zenv, z3), to_z3(e[2], zenv, z3))
    raise KeyError(k)


# ---- random expression trees ---------------------------------------------------------------------
class ExprGen:
    """well-typed random expressions over given variables; arithmetic stays linear (at most one non-constant factor, constant divisors != 0)"""

    def __init__(self, rnd, reals, bools, consts_only=False):
        self.rnd = rnd
        self.reals = list(reals)
        self.bools = list(bools)
        self.consts_only = consts_only

    def const(self):
        r = self.rnd
        c = r.random()
        if c < 0.55:
            return num(r.randint(0, 9))
        if c < 0.8:
            return num(Fraction(r.randint(0, 99), r.choice([2, 4, 5, 10])), "real")
        return num(Fraction(r.randint(0, 9)), "real")

    def const_tree(self, depth):
        r = self.rnd
        if depth <= 0 or r.random() < 0.3:
            return self.const()
        c = r.random()
        if c < 0.3:
            return ("add", [self.const_tree(depth - 1) for _ in range(r.randint(2, 3))])
        if c < 0.55:
            return ("sub", [self.const_tree(depth - 1) for _ in range(r.randint(2, 3))])
        if c < 0.75:
            return ("mul", [self.const_tree(depth - 1) for _ in range(2)])
        if c < 0.85:
            d = self.const()
            while d[1] == 0:
                d = self.const()
            ds = [d]
            if r.random() < 0.3:        # a chain a / b / c with two different divisors
                d2 = self.const()
                while d2[1] == 0:
                    d2 = self.const()
                ds.append(d2)
            return ("div", [self.const_tree(depth - 1)] + ds)
        if c < 0.95:
            return ("neg", self.const_tree(depth - 1))
        return ("pos", self.const_tree(depth - 1))

    def arith(self, depth):
        r = self.rnd
        if self.consts_only or not self.reals:
            return self.const_tree(depth)
        if depth <= 0 or r.random() < 0.25:
            return ("id", [r.choice(self.reals)]) if r.random() < 0.7 else self.const()
        c = r.random()
        if c < 0.35:
            return ("add", [self.arith(depth - 1) for _ in range(r.randint(2, 3))])
        if c < 0.6:
            return ("sub", [self.arith(depth - 1) for _ in range(r.randint(2, 3))])
        if c < 0.78:
            k = self.const_tree(1)
            v = self.arith(depth - 1)
            fs = [k, v] if r.random() < 0.5 else [v, k]
            return ("mul", fs)
        if c < 0.86:
            d = self.const()
            while d[1] == 0:
                d = self.const()
            ds = [d]
            if r.random() < 0.3:
                d2 = self.const()
                while d2[1] == 0:
                    d2 = self.const()
                ds.append(d2)
            return ("div", [self.arith(depth - 1)] + ds)
        if c < 0.96:
            return ("neg", self.arith(depth - 1))
        return ("pos", self.arith(depth - 1))

    def rel(self, depth):
        r = self.rnd
        pool = self.__dict__.setdefault("pool", [])
        if pool and not self.consts_only and r.random() < 0.3:
            # the same atom (or the same expression against a neighbouring constant / the opposite relation) again: shared and unate literals
            op, l, rr = r.choice(pool)
            c = r.random()
            if c < 0.5:
                return (op, l, rr)
            if c < 0.8:
                return (r.choice(["lt", "leq", "geq", "gt", "eq"]), l, rr)
            return (r.choice(["leq", "geq", "lt", "gt"]), l, ("add", [rr, self.const()]))
        e = (r.choice(["lt", "leq", "geq", "gt", "eq", "neq", "leq", "geq"]), self.arith(depth), self.arith(depth))
        pool.append(e)
        return e

    def boolean(self, depth):
        r = self.rnd
        if depth <= 0 or r.random() < 0.2:
            c = r.random()
            if self.bools and c < 0.5:
                return ("id", [r.choice(self.bools)])
            if c < 0.55:
                return ("bool", r.random() < 0.5)
            return self.rel(1)
        c = r.random()
        if c < 0.25:
            return ("and", [self.boolean(depth - 1) for _ in range(r.randint(2, 3))])
        if c < 0.5:
            return ("or", [self.boolean(depth - 1) for _ in range(r.randint(2, 3))])
        if c < 0.6:
            args = []
            for _ in range(r.randint(2, 3)):
                a = self.boolean(depth - 1)
                if repr(strip_nn(a)) not in [repr(strip_nn(x)) for x in args]:
                    args.append(a)
            return ("xor", args) if len(args) > 1 else args[0]
        if c < 0.72:
            return ("imp", self.boolean(depth - 1), self.boolean(depth - 1))
        if c < 0.85:
            return ("not", self.boolean(depth - 1))
        if c < 0.93 and self.bools:
            return (r.choice(["eq", "neq"]), self.boolean(depth - 1), self.boolean(depth - 1))
        return self.rel(2)
