"""Reference RIDDLE tokenizer written from the language's token table (not from the lexer's code)."""
from fractions import Fraction

KEYWORDS = {"bool": "BOOL", "int": "INT", "real": "REAL", "tp": "TP", "string": "STRING", "typedef": "TYPEDEF", "enum": "ENUM", "class": "CLASS",
            "goal": "GOAL", "fact": "FACT", "predicate": "PREDICATE", "new": "NEW", "or": "OR", "this": "THIS", "void": "VOID", "return": "RETURN"}
OPS2 = {"==": "EQEQ", "<=": "LTEQ", ">=": "GTEQ", "!=": "BANGEQ", "->": "IMPLICATION"}
OPS1 = {".": "DOT", ",": "COMMA", ":": "COLON", ";": "SEMICOLON", "(": "LPAREN", ")": "RPAREN", "[": "LBRACKET", "]": "RBRACKET", "{": "LBRACE", "}": "RBRACE",
        "+": "PLUS", "-": "MINUS", "*": "STAR", "/": "SLASH", "&": "AMP", "|": "BAR", "=": "EQ", ">": "GT", "<": "LT", "!": "BANG", "^": "CARET"}


class LexError(Exception):
    pass


def is_id_start(c):
    return c == "_" or c.isascii() and c.isalpha()


def is_id_part(c):
    return c == "_" or (c.isascii() and c.isalnum())


def tokenize(text):
    """returns list of (SYM, payload or None); raises LexError for inputs the language does not define"""
    i, n = 0, len(text)
    out = []
    while i < n:
        c = text[i]
        if c in " \t\r\n":
            i += 1
            continue
        if text.startswith("//", i):
            while i < n and text[i] not in "\r\n":
                i += 1
            continue
        if text.startswith("/*", i):
            j = text.find("*/", i + 2)
            if j < 0:
                raise LexError("unterminated comment")
            i = j + 2
            continue
        if c == '"':
            j = i + 1
            s = ""
            while True:
                if j >= n:
                    raise LexError("unterminated string")
                if text[j] == "\\":
                    if j + 1 >= n:
                        raise LexError("unterminated string")
                    s += text[j + 1]
                    j += 2
                    continue
                if text[j] in "\r\n":
                    raise LexError("newline in string")
                if text[j] == '"':
                    break
                s += text[j]
                j += 1
            out.append(("StringLiteral", s))
            i = j + 1
            continue
        if c.isdigit() or (c == "." and i + 1 < n and text[i + 1].isdigit()):
            j = i
            while j < n and text[j].isdigit():
                j += 1
            intpart = text[i:j]
            if j < n and text[j] == ".":
                k = j + 1
                while k < n and text[k].isdigit():
                    k += 1
                dec = text[j + 1:k]
                if k < n and text[k] == ".":
                    raise LexError("invalid numeric literal")
                if intpart == "" and dec == "":
                    raise LexError("lone dot")
                val = Fraction(int((intpart + dec) or "0"), 10 ** len(dec))
                out.append(("RealLiteral", "%d/%d" % (val.numerator, val.denominator)))
                i = k
            else:
                out.append(("IntLiteral", str(int(intpart))))
                i = j
            continue
        if is_id_start(c):
            j = i
            while j < n and is_id_part(text[j]):
                j += 1
            w = text[i:j]
            if w in KEYWORDS:
                out.append((KEYWORDS[w], None))
            elif w == "true":
                out.append(("BoolLiteral", "1"))
            elif w == "false":
                out.append(("BoolLiteral", "0"))
            else:
                out.append(("ID", w))
            i = j
            continue
        if text[i:i + 2] in OPS2:
            out.append((OPS2[text[i:i + 2]], None))
            i += 2
            continue
        if c in OPS1:
            out.append((OPS1[c], None))
            i += 1
            continue
        raise LexError("invalid character %r" % c)
    out.append(("EOF", None))
    return out


def parse_driver_output(block):
    """lines of one @@FILE section -> (tokens, error)"""
    toks = []
    err = None
    for l in block:
        if l.startswith("@@ERROR"):
            err = l[8:]
            break
        if l.startswith("@@NULL"):
            err = "null token"
            break
        sp = l.find(" ")
        if sp < 0:
            toks.append((l, None))
        else:
            toks.append((l[:sp], l[sp + 1:]))
    return toks, err
