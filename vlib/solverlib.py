"""Running RIDDLE programs through the probe / the oRatio CLI and reading back what they expose."""
import json
import os
import shutil
import subprocess
import tempfile
from fractions import Fraction

from vlib import build, drv

TMP_ROOT = os.path.join(build.ROOT, "tmp")


class Outcome:
    """what one run of the probe exposed"""

    def __init__(self):
        self.read = None          # 'ok' | 'error'
        self.read_error = None
        self.pre = None
        self.solve = None         # 'true' | 'false' | 'error'
        self.solve_error = None
        self.post = None
        self.timelines = None
        self.graph = None
        self.undecided = []       # theory atoms (LRA assertions) left undecided by the reported solution: [{'b':..,'vars':[lra var ids]}]
        self.crash = None         # drv.Crash
        self.stdout = ""

    @property
    def status(self):
        if self.crash is not None:
            return "timeout" if self.crash.timeout else "crash"
        if self.read != "ok":
            return "read-error"
        if self.solve == "true":
            return "solved"
        if self.solve == "false":
            return "unsolvable"
        return "solve-error"


def _parse(out, text):
    for line in text.split("\n"):
        if line.startswith("@@READ "):
            rest = line[7:]
            if rest.startswith("ok"):
                out.read = "ok"
            else:
                out.read = "error"
                out.read_error = rest[6:]
        elif line.startswith("@@PRE "):
            out.pre = json.loads(line[6:])
        elif line.startswith("@@SOLVE "):
            rest = line[8:]
            if rest.startswith("true"):
                out.solve = "true"
            elif rest.startswith("false"):
                out.solve = "false"
            else:
                out.solve = "error"
                out.solve_error = rest[6:]
        elif line.startswith("@@POST "):
            out.post = json.loads(line[7:])
        elif line.startswith("@@TIMELINES "):
            out.timelines = json.loads(line[12:])
        elif line.startswith("@@UNDECIDED "):
            out.undecided = json.loads(line[12:])
        elif line.startswith("@@GRAPH "):
            out.graph = json.loads(line[8:])


def run_probe(exe, texts, timeout=20.0, env=None, mem_gb=4, incremental=False):
    """texts: list of RIDDLE sources (one file each; incremental: read + solve one after the other); returns Outcome"""
    if incremental:
        env = dict(env or drv.san_env(), PROBE_INCREMENTAL="1")
    os.makedirs(TMP_ROOT, exist_ok=True)
    d = tempfile.mkdtemp(prefix="p", dir=TMP_ROOT)
    out = Outcome()
    try:
        files = []
        for i, t in enumerate(texts):
            p = os.path.join(d, "f%d.rddl" % i)
            with open(p, "w") as fh:
                fh.write(t)
            files.append(p)
        try:
            p = subprocess.run([exe] + files, stdout=subprocess.PIPE, stderr=subprocess.PIPE, text=True, timeout=timeout,
                               env=env or drv.san_env(), preexec_fn=drv._limits(mem_gb, exe), errors="replace", cwd=d)
            out.stdout = p.stdout
            if p.returncode != 0:
                out.crash = drv.Crash(p.returncode, drv.clip(p.stderr))
            _parse(out, p.stdout)
        except subprocess.TimeoutExpired as ex:
            so = ex.stdout.decode(errors="replace") if isinstance(ex.stdout, bytes) else (ex.stdout or "")
            se = ex.stderr.decode(errors="replace") if isinstance(ex.stderr, bytes) else (ex.stderr or "")
            out.crash = drv.Crash(None, drv.clip(se), timeout=True)
            try:
                _parse(out, so)
            except ValueError:
                pass
    finally:
        shutil.rmtree(d, ignore_errors=True)
    return out


def run_cli(bdir, texts, timeout=20.0, mem_gb=4):
    """the user-visible path: oRatio <files> <out.json>; returns (exit code | None on timeout, stdout, solution json | None, Crash | None)"""
    os.makedirs(TMP_ROOT, exist_ok=True)
    d = tempfile.mkdtemp(prefix="c", dir=TMP_ROOT)
    try:
        files = []
        for i, t in enumerate(texts):
            p = os.path.join(d, "f%d.rddl" % i)
            with open(p, "w") as fh:
                fh.write(t)
            files.append(p)
        sol = os.path.join(d, "sol.json")
        try:
            p = subprocess.run([os.path.join(bdir, "bin", "oRatio")] + files + [sol], stdout=subprocess.PIPE, stderr=subprocess.PIPE, text=True,
                               timeout=timeout, env=drv.san_env(), preexec_fn=drv._limits(mem_gb), errors="replace", cwd=d)
        except subprocess.TimeoutExpired:
            return None, "", None, drv.Crash(None, "", timeout=True)
        js = None
        if os.path.exists(sol):
            try:
                js = json.load(open(sol))
            except ValueError:
                js = "unparsable"
        crash = drv.Crash(p.returncode, drv.clip(p.stderr)) if p.returncode not in (0, 1) else None
        return p.returncode, p.stdout, js, crash
    finally:
        shutil.rmtree(d, ignore_errors=True)


# ---- reading values out of the solution JSON ------------------------------------------------------
def rat(j):
    r = Fraction(j["num"], j["den"]) if j["den"] != 0 else None
    e = Fraction(0)
    if "inf" in j:
        e = Fraction(j["inf"]["num"], j["inf"]["den"])
    return (r, e)


class Solution:
    """name-based access to the values exposed by core::to_json"""

    def __init__(self, js):
        self.js = js or {}
        self.items = {it["id"]: it for it in self.js.get("items", [])}
        self.atoms = {a["id"]: a for a in self.js.get("atoms", [])}
        self.top = {e["name"]: e for e in self.js.get("exprs", [])}

    def _value(self, e):
        t, v = e["type"], e["value"]
        if t == "bool":
            return {"True": True, "False": False}.get(v["val"], None)
        if t in ("int", "real", "tp"):
            return rat(v)
        if t == "string":
            return ("str", v)
        if isinstance(v, dict) and "vals" in v:
            vals = v["vals"]
            return vals[0] if len(vals) == 1 else frozenset(vals)
        return v      # an object / atom id

    def fields_of(self, oid):
        if oid in self.items:
            return {e["name"]: e for e in self.items[oid].get("exprs", [])}
        if oid in self.atoms:
            return {e["name"]: e for e in self.atoms[oid].get("pars", [])}
        return {}

    def lookup(self, path, scope=None):
        """value of a dotted name; raises KeyError when a step goes through a variable with several values"""
        cur = scope if scope is not None else self.top
        val = None
        for i, n in enumerate(path):
            if n not in cur:
                raise KeyError(".".join(path))
            val = self._value(cur[n])
            if i + 1 < len(path):
                if isinstance(val, frozenset):
                    raise KeyError("ambiguous " + ".".join(path))
                cur = self.fields_of(val)
        return val

    def env(self, scope=None):
        sol = self

        class Env(dict):
            def __contains__(self, k):
                try:
                    sol.lookup(k.split("."), scope)
                    return True
                except KeyError:
                    if scope is not None:
                        try:
                            sol.lookup(k.split("."))
                            return True
                        except KeyError:
                            return False
                    return False

            def __getitem__(self, k):
                try:
                    return sol.lookup(k.split("."), scope)
                except KeyError:
                    if scope is not None:
                        return sol.lookup(k.split("."))
                    raise
        return Env()
