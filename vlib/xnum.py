"""Exact reference arithmetic: rationals with +-infinity, (rational, infinitesimal) pairs, linear expressions.

Deliberately written from the mathematics, not from oRatio's code.
A rational is a Fraction or the strings '+inf' / '-inf'.  A Q is a pair (rational, rational).
A lin is (dict var->Fraction without zero entries, Fraction known term).
"""
from fractions import Fraction

PINF = "+inf"
NINF = "-inf"


class Undefined(Exception):
    pass


def is_inf(r):
    return r is PINF or r is NINF or r == PINF or r == NINF


def sgn(r):
    if r == PINF:
        return 1
    if r == NINF:
        return -1
    return (r > 0) - (r < 0)


def parse_r(s):
    s = s.strip()
    if "/" in s:
        n, d = s.split("/")
        n, d = int(n), int(d)
    else:
        n, d = int(s), 1
    if d == 0:
        if n == 0:
            raise Undefined("0/0")
        return PINF if n > 0 else NINF
    return Fraction(n, d)


def raw_r(s):
    """numerator/denominator exactly as printed by the driver"""
    n, d = s.split("/")
    return int(n), int(d)


def canon_r(r):
    if r == PINF:
        return (1, 0)
    if r == NINF:
        return (-1, 0)
    return (r.numerator, r.denominator)


def fmt_r(r):
    n, d = canon_r(r)
    return "%d/%d" % (n, d)


def r_cmp(a, b):
    """-1, 0, 1 in the total order -inf < finite < +inf"""
    ka = 2 if a == PINF else (0 if a == NINF else 1)
    kb = 2 if b == PINF else (0 if b == NINF else 1)
    if ka != kb:
        return -1 if ka < kb else 1
    if ka != 1:
        return 0
    return (a > b) - (a < b)


def r_neg(a):
    if a == PINF:
        return NINF
    if a == NINF:
        return PINF
    return -a


def r_add(a, b):
    if is_inf(a) and is_inf(b):
        if a != b:
            raise Undefined("inf-inf")
        return a
    if is_inf(a):
        return a
    if is_inf(b):
        return b
    return a + b


def r_sub(a, b):
    return r_add(a, r_neg(b))


def r_mul(a, b):
    if is_inf(a) or is_inf(b):
        s = sgn(a) * sgn(b)
        if s == 0:
            raise Undefined("0*inf")
        return PINF if s > 0 else NINF
    return a * b


def r_div(a, b):
    if is_inf(b):
        if is_inf(a):
            raise Undefined("inf/inf")
        return Fraction(0)
    if b == 0:
        raise Undefined("x/0")
    if is_inf(a):
        return a if b > 0 else r_neg(a)
    return a / b


R_OPS = {"add": r_add, "sub": r_sub, "mul": r_mul, "div": r_div}
CMP = {"ne": lambda c: c != 0, "lt": lambda c: c < 0, "le": lambda c: c <= 0, "eq": lambda c: c == 0, "ge": lambda c: c >= 0, "gt": lambda c: c > 0}


# ---- (rational, infinitesimal) pairs ------------------------------------------------------------
def parse_q(s):
    if "," in s:
        a, b = s.split(",")
        return (parse_r(a), parse_r(b))
    return (parse_r(s), Fraction(0))


def q_cmp(a, b):
    c = r_cmp(a[0], b[0])
    if c:
        return c
    if is_inf(a[0]):
        return 0
    return r_cmp(a[1], b[1])


def q_norm(a):
    return (a[0], Fraction(0)) if is_inf(a[0]) else a


def q_add(a, b):
    r = r_add(a[0], b[0])
    return q_norm((r, r_add(a[1], b[1]) if not is_inf(r) else Fraction(0)))


def q_neg(a):
    return (r_neg(a[0]), r_neg(a[1]))


def q_sub(a, b):
    return q_add(a, q_neg(b))


def q_scale(a, k):
    r = r_mul(a[0], k)
    if is_inf(r):
        return (r, Fraction(0))
    return (r, r_mul(a[1], k))


def q_div(a, k):
    r = r_div(a[0], k)
    if is_inf(r):
        return (r, Fraction(0))
    return (r, r_div(a[1], k))


def fmt_q(a):
    return fmt_r(a[0]) + "," + fmt_r(a[1])


# ---- linear expressions --------------------------------------------------------------------------
def parse_l(s):
    parts = s.split(";")
    k = parse_r(parts[0])
    vs = {}
    for p in parts[1:]:
        v, c = p.split(":")
        c = parse_r(c)
        vs[int(v)] = c
    return (vs, k)


def l_clean(vs):
    return {v: c for v, c in vs.items() if c != 0}


def l_add(a, b):
    vs = dict(a[0])
    for v, c in b[0].items():
        vs[v] = vs.get(v, Fraction(0)) + c
    return (l_clean(vs), a[1] + b[1])


def l_scale(a, k):
    return (l_clean({v: c * k for v, c in a[0].items()}), a[1] * k)


def l_neg(a):
    return l_scale(a, Fraction(-1))


def l_sub(a, b):
    return l_add(a, l_neg(b))
